"""E6: static call graph, effect summaries and reachability.

Calls are resolved through imports (module level and function local), through
class-hierarchy analysis for ``self.m()`` (every override in every subclass of
the enclosing class, unless a concrete receiver class is given), through
``super()``, ``Class.m(self)``, instantiation (``__init__``) and property
getters/setters.  Calls through variables holding user callables (cost,
constraints, penalty, termination, map, callback) are *indirect* and are not
followed: what the user's callable does is outside the analysed program.
"""
import ast

from .srcmodel import AnalysisError, walk_no_nested, attr_chain, parent

RNG_MODULES = ('random', 'numpy.random')
RNG_CONSTRUCTORS = ('Random', 'RandomState', 'default_rng', 'SystemRandom', 'Generator')
RNG_NONDRAW = ('getstate', 'get_state')


class CallGraph(object):
    # summarised at their call sites (see rng_effects), never descended into
    PRIMITIVES = {'mystic.tools:random_state': 'returns the global generator unless new/seed is given',
                  'mystic.tools:random_seed': 'reseeds the global generators'}

    def __init__(self, model):
        self.model = model
        self._callees = {}
        self._effects = {}

    # ------------------------------------------------------------ locals
    def local_names(self, finfo):
        """names bound locally in finfo (params, assignments, loop targets, with/except)"""
        names = set()
        a = finfo.node.args
        for x in a.posonlyargs + a.args + a.kwonlyargs:
            names.add(x.arg)
        if a.vararg:
            names.add(a.vararg.arg)
        if a.kwarg:
            names.add(a.kwarg.arg)
        for n in walk_no_nested(finfo.node):
            if isinstance(n, ast.Name) and isinstance(n.ctx, (ast.Store, ast.Del)):
                names.add(n.id)
            elif isinstance(n, ast.ExceptHandler) and n.name:
                names.add(n.name)
        imported = set(self.model.local_imports(finfo))
        # nested defs are bound names too, but resolvable
        return names - imported

    def rng_names(self, finfo):
        """local names that denote an RNG module/object or a bound RNG method"""
        model = self.model
        names = {}
        # import bindings
        binds = dict(finfo.module.imports)
        binds.update(model.local_imports(finfo))
        for k, v in binds.items():
            dotted = v[1] if v[0] == 'module' else v[1] + '.' + v[2]
            if dotted in RNG_MODULES:
                names[k] = 'module'
            elif v[0] == 'symbol' and v[1] in RNG_MODULES:
                names[k] = 'function'   # from random import random
        # enclosing functions' rng locals are visible to closures
        if finfo.parent is not None:
            for k, v in self.rng_names(finfo.parent).items():
                names.setdefault(k, v)
        a = finfo.node.args
        params = set(x.arg for x in a.posonlyargs + a.args + a.kwonlyargs)
        # a parameter whose *default* is an RNG function draws whenever the default is used
        pos = a.posonlyargs + a.args
        for prm, dflt in list(zip(pos[len(pos) - len(a.defaults):], a.defaults)) + \
                [(k, d) for k, d in zip(a.kwonlyargs, a.kw_defaults) if d is not None]:
            kind = self._rng_value(finfo, dflt, names)
            if kind:
                names[prm.arg] = kind
        assigns = {}
        for n in walk_no_nested(finfo.node):
            if isinstance(n, ast.Assign) and len(n.targets) == 1 and isinstance(n.targets[0], ast.Name):
                assigns.setdefault(n.targets[0].id, []).append(n.value)
            elif isinstance(n, (ast.For, ast.AugAssign, ast.With, ast.NamedExpr)):
                tg = getattr(n, 'target', None)
                for x in ([tg] if tg is not None else []):
                    for nm in ast.walk(x):
                        if isinstance(nm, ast.Name):
                            assigns.setdefault(nm.id, []).append(None)
        changed = True
        while changed:
            changed = False
            for tgt, vals in assigns.items():
                if tgt in names or tgt in params:
                    continue   # a parameter may hold anything the caller passed
                kinds = [self._rng_value(finfo, v, names) if v is not None else None for v in vals]
                if kinds and all(kinds):
                    names[tgt] = kinds[0]
                    changed = True
        return names

    def _is_random_state_call(self, finfo, node):
        if isinstance(node, ast.Call):
            r = self.model.resolve_dotted(finfo, node.func) if isinstance(node.func, (ast.Name, ast.Attribute)) else None
            if r and r[0] == 'func' and r[1].anchor == 'mystic.tools:random_state':
                return True
        return False

    def _rng_value(self, finfo, v, names):
        if self._is_random_state_call(finfo, v):
            return 'object'
        if isinstance(v, ast.Attribute):
            base = v.value
            if self._is_random_state_call(finfo, base):
                return 'function'
            root = base
            while isinstance(root, ast.Attribute):
                root = root.value
            if isinstance(root, ast.Name) and names.get(root.id) in ('module', 'object'):
                ch = attr_chain(v)
                # numpy.random -> module ; random.random -> function
                r = self.model.resolve_dotted(finfo, v)
                if r and r[0] == 'module' and r[1] in RNG_MODULES:
                    return 'module'
                if r and r[0] == 'extern' and r[1] in RNG_MODULES:
                    return 'module'
                return 'function'
        if isinstance(v, ast.Name) and v.id in names:
            return names[v.id]
        if isinstance(v, ast.Call) and isinstance(v.func, (ast.Name, ast.Attribute)):
            ch = attr_chain(v.func) or ''
            if ch.split('.')[-1] in RNG_CONSTRUCTORS:
                return 'object'
        return None

    # ------------------------------------------------------------ effects
    def rng_effects(self, finfo):
        """[(kind, text, node)] : direct RNG uses in finfo (not in nested defs)
        kind: 'draw' | 'seed' | 'private-generator' | 'time-seed'"""
        key = ('rng', finfo.anchor)
        if key in self._effects:
            return self._effects[key]
        out = []
        names = self.rng_names(finfo)
        for n in walk_no_nested(finfo.node, include_lambda=False):
            if not isinstance(n, ast.Call):
                continue
            f = n.func
            ch = attr_chain(f) if isinstance(f, (ast.Name, ast.Attribute)) else None
            last = ch.split('.')[-1] if ch else None
            if last in RNG_CONSTRUCTORS:
                root = ch.split('.')[0]
                if root in names or len(ch.split('.')) == 1 and self._extern_of(finfo, f) in tuple(
                        m + '.' + last for m in RNG_MODULES):
                    out.append(('private-generator', ch, n))
                    continue
            if isinstance(f, (ast.Name, ast.Attribute)):
                rr = self.model.resolve_dotted(finfo, f)
                if rr and rr[0] == 'func' and rr[1].anchor == 'mystic.tools:random_seed':
                    out.append(('seed', 'random_seed(...)', n))
                    continue
            if self._is_random_state_call(finfo, n):
                kw = {k.arg: k.value for k in n.keywords}
                args = list(n.args)
                new = kw.get('new', args[1] if len(args) > 1 else None)
                seed = kw.get('seed', args[2] if len(args) > 2 else None)
                if new is not None and not (isinstance(new, ast.Constant) and not new.value):
                    out.append(('private-generator', 'random_state(new=...)', n))
                if seed is not None and not (isinstance(seed, ast.Constant) and seed.value == '!'):
                    out.append(('seed', 'random_state(seed=...)', n))
                continue
            if isinstance(f, ast.Name):
                if names.get(f.id) == 'function':
                    out.append(('draw', f.id, n))
                continue
            if isinstance(f, ast.Attribute):
                root = f
                while isinstance(root, ast.Attribute):
                    root = root.value
                if isinstance(root, ast.Name) and names.get(root.id) in ('module', 'object'):
                    if f.attr in RNG_NONDRAW:
                        continue
                    kind = 'seed' if f.attr in ('seed', 'setstate', 'set_state') else 'draw'
                    out.append((kind, ch, n))
                elif isinstance(root, ast.Call) and self._is_random_state_call(finfo, root):
                    out.append(('draw', 'random_state().' + f.attr, n))
        self._effects[key] = out
        return out

    def _extern_of(self, finfo, fnode):
        r = self.model.resolve_dotted(finfo, fnode)
        if r and r[0] == 'extern':
            return r[1]
        return None

    # ------------------------------------------------------------ call resolution
    def callees(self, finfo, receiver=None):
        """[(target, node)] with target FuncInfo | ('extern',name) | ('indirect',text)
        | ('unknown-method', name).  receiver: concrete ClassInfo for `self`"""
        key = (finfo.anchor, receiver.anchor if receiver else None)
        if key in self._callees:
            return self._callees[key]
        model = self.model
        out = []
        cls = model.enclosing_class(finfo)
        selfname = None
        f = finfo
        while f is not None:
            if f.cls is not None and f.node.args.args:
                selfname = f.node.args.args[0].arg
                break
            f = f.parent
        locals_ = self.local_names(finfo)
        # closure variables of enclosing functions are locals too
        p = finfo.parent
        while p is not None:
            locals_ |= self.local_names(p)
            p = p.parent

        def method_targets(name, via_super_of=None):
            res = []
            if cls is None:
                return res
            if via_super_of is not None:
                mro = model.mro(receiver or cls)
                if via_super_of in mro:
                    for k in mro[mro.index(via_super_of) + 1:]:
                        if name in k.methods:
                            res.append(k.methods[name])
                            break
                return res
            if receiver is not None:
                m = model.lookup_method(receiver, name, from_cls=cls)
                return [m] if m else []
            seen = set()
            for k in model.subclasses(cls):
                m = model.lookup_method(k, name, from_cls=cls)
                if m is not None and id(m) not in seen:
                    seen.add(id(m))
                    res.append(m)
            return res

        # local aliases of known functions:  simple = _simplify
        aliases = {}
        alias_bad = set()
        for n in walk_no_nested(finfo.node, include_lambda=False):
            if isinstance(n, ast.Assign) and len(n.targets) == 1 and isinstance(n.targets[0], ast.Name):
                nm = n.targets[0].id
                r = None
                if isinstance(n.value, (ast.Name, ast.Attribute)):
                    if not (isinstance(n.value, ast.Name) and n.value.id in locals_):
                        r = model.resolve_dotted(finfo, n.value)
                if r is not None and r[0] in ('func', 'class'):
                    aliases.setdefault(nm, []).append(r)
                else:
                    alias_bad.add(nm)
        for nm in alias_bad:
            aliases.pop(nm, None)
        for n in walk_no_nested(finfo.node, include_lambda=False):
            # property reads / writes on self
            if isinstance(n, ast.Attribute) and isinstance(n.value, ast.Name) and n.value.id == selfname and cls is not None:
                for k in ([receiver] if receiver else model.subclasses(cls)):
                    pr = model.lookup_prop(k, n.attr)
                    if pr:
                        g, s = pr
                        tgt = s if isinstance(n.ctx, ast.Store) else g
                        if tgt is not None and all(tgt is not t for t, _ in out if isinstance(t, type(tgt))):
                            out.append((tgt, n))
            if not isinstance(n, ast.Call):
                continue
            fn = n.func
            if isinstance(fn, ast.Name) and fn.id in aliases:
                for tgt in aliases[fn.id]:
                    self._add_resolved(out, tgt, n, fn.id)
                continue
            if isinstance(fn, ast.Name):
                if fn.id in locals_ and not (finfo.qualname + '.' + fn.id) in finfo.module.funcs:
                    # maybe a nested def of an enclosing function
                    r = None
                    pf = finfo
                    while pf is not None and r is None:
                        q = pf.qualname + '.' + fn.id
                        if q in pf.module.funcs:
                            r = ('func', pf.module.funcs[q])
                        pf = pf.parent
                    if r is None:
                        out.append((('indirect', fn.id), n))
                        continue
                else:
                    r = model.resolve_in_func(finfo, fn.id)
                self._add_resolved(out, r, n, fn.id)
            elif isinstance(fn, ast.Attribute):
                base = fn.value
                if isinstance(base, ast.Name) and base.id == selfname and cls is not None:
                    tg = method_targets(fn.attr)
                    if tg:
                        for t in tg:
                            out.append((t, n))
                    else:
                        out.append((('indirect', 'self.' + fn.attr), n))
                    continue
                if isinstance(base, ast.Call) and isinstance(base.func, ast.Name) and base.func.id == 'super':
                    owner = cls
                    if base.args and isinstance(base.args[0], ast.Name):
                        r = model.resolve_in_func(finfo, base.args[0].id)
                        if r and r[0] == 'class':
                            owner = r[1]
                    for t in method_targets(fn.attr, via_super_of=owner):
                        out.append((t, n))
                    continue
                r = model.resolve_dotted(finfo, fn)
                if r is not None:
                    self._add_resolved(out, r, n, attr_chain(fn) or fn.attr)
                else:
                    root = base
                    while isinstance(root, (ast.Attribute, ast.Subscript, ast.Call)):
                        root = root.value if not isinstance(root, ast.Call) else root.func
                    out.append((('unknown-method', fn.attr), n))
            else:
                out.append((('indirect', '<expr>'), n))
        self._callees[key] = out
        return out

    def _add_resolved(self, out, r, n, text):
        model = self.model
        if r is None:
            out.append((('extern', text), n))
        elif r[0] == 'func':
            out.append((r[1], n))
        elif r[0] == 'class':
            init = model.lookup_method(r[1], '__init__')
            if init is not None:
                out.append((init, n))
            new = model.lookup_method(r[1], '__new__')
            if new is not None:
                out.append((new, n))
            if init is None and new is None:
                out.append((('extern', text), n))
        elif r[0] == 'extern':
            out.append((('extern', r[1]), n))
        elif r[0] == 'value':
            out.append((('indirect', text), n))
        else:
            out.append((('extern', text), n))

    # ------------------------------------------------------------ reachability
    def reach(self, entry, effect, receiver=None, follow_unknown=None, max_depth=40, nested=True):
        """depth-first search from entry; effect(finfo) -> list of hits.
        Returns [(path_of_FuncInfo, hit)] for every function reached that has hits.
        follow_unknown: optional callable(method_name) -> [FuncInfo] for
        unknown-receiver method calls."""
        model = self.model
        found = []
        seen = set()
        stack = [(entry, (entry,))]
        while stack:
            f, path = stack.pop()
            if f.anchor in seen or f.anchor in self.PRIMITIVES:
                continue
            seen.add(f.anchor)
            for h in effect(f):
                found.append((path, h))
            if len(path) >= max_depth:
                continue
            recv = receiver if (receiver is not None and model.enclosing_class(f) in model.mro(receiver)) else None
            for tgt, node in self.callees(f, recv):
                if hasattr(tgt, 'anchor'):
                    stack.append((tgt, path + (tgt,)))
                elif tgt[0] == 'unknown-method' and follow_unknown is not None:
                    for t in follow_unknown(tgt[1]):
                        stack.append((t, path + (t,)))
            if nested:
                # nested functions defined here and *returned or called* are part of
                # the function's behaviour only when called; closures handed out are
                # followed too (conservative for factories)
                pre = f.qualname + '.'
                for q, nf in f.module.funcs.items():
                    if q.startswith(pre) and '.' not in q[len(pre):] and nf.parent is f:
                        if self._nested_is_called(f, nf):
                            stack.append((nf, path + (nf,)))
        self.last_seen = seen
        return found

    def _nested_is_called(self, f, nf):
        name = nf.node.name
        for n in walk_no_nested(f.node, include_lambda=False):
            if isinstance(n, ast.Call) and isinstance(n.func, ast.Name) and n.func.id == name:
                return True
        return False


# ---------------------------------------------------------------- attribute writes
def attr_writes(fnode, selfname='self'):
    """[(attrname, kind, node)] for stores through `selfname`:
    kind: 'bind' (self.a = ..), 'item' (self.a[i] = ..), 'aug', 'del', 'mutcall' (self.a.append(..))"""
    out = []
    MUT = ('append', 'extend', 'insert', 'pop', 'remove', 'clear', 'update', 'sort', 'reverse',
           'setdefault', 'popitem', 'prepend', '__setitem__')
    for n in walk_no_nested(fnode):
        if isinstance(n, (ast.Assign, ast.AugAssign, ast.AnnAssign, ast.Delete, ast.For, ast.With)):
            if isinstance(n, ast.Assign):
                tgts = n.targets
            elif isinstance(n, ast.Delete):
                tgts = n.targets
            elif isinstance(n, ast.For):
                tgts = [n.target]
            elif isinstance(n, ast.With):
                tgts = [i.optional_vars for i in n.items if i.optional_vars is not None]
            else:
                tgts = [n.target]
            flat = []
            for t in tgts:
                flat.extend(_flatten_targets(t))
            for t in flat:
                kind = 'aug' if isinstance(n, ast.AugAssign) else ('del' if isinstance(n, ast.Delete) else 'bind')
                base = t
                item = False
                while isinstance(base, ast.Subscript):
                    base = base.value
                    item = True
                if isinstance(base, ast.Attribute):
                    root = base
                    first = None
                    while isinstance(root, ast.Attribute):
                        first = root
                        root = root.value
                    if isinstance(root, ast.Name) and root.id == selfname:
                        deeper = first is not base
                        k = 'item' if (item or deeper) and kind == 'bind' else kind
                        if (item or deeper) and kind == 'aug':
                            k = 'item'
                        out.append((first.attr, k, n))
        elif isinstance(n, ast.Call) and isinstance(n.func, ast.Attribute) and n.func.attr in MUT:
            base = n.func.value
            while isinstance(base, ast.Subscript):
                base = base.value
            root = base
            first = None
            while isinstance(root, ast.Attribute):
                first = root
                root = root.value
            if first is not None and isinstance(root, ast.Name) and root.id == selfname:
                out.append((first.attr, 'mutcall', n))
    return out


def _flatten_targets(t):
    if isinstance(t, (ast.Tuple, ast.List)):
        r = []
        for e in t.elts:
            r.extend(_flatten_targets(e))
        return r
    if isinstance(t, ast.Starred):
        return _flatten_targets(t.value)
    return [t]
