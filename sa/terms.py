"""E2: value numbering of source expressions into canonical terms.

Terms are hashable nested tuples.  Arithmetic (+ - * / ** with rational
exponents) is normalised to a polynomial normal form with Fraction
coefficients over *atoms* (names, attribute chains, subscripts, uninterpreted
calls), which is complete for ring identities and for division by monomials.
Comparisons get a canonical orientation ('>' becomes '<' with swapped
operands); ``not (a<b)`` is deliberately NOT rewritten to ``a>=b`` (NaN).

No path is explored and nothing is executed: this is compiler-style
forward substitution on the AST.
"""
import ast
from fractions import Fraction

from .srcmodel import AnalysisError, unparse

ZERO = ('poly', ())
# float()/asarray()-like wrappers that do not change the mathematical value
EXHAUSTIVE_CONSUMERS = ('sum', 'min', 'max', 'sorted', 'list', 'tuple', 'set', 'frozenset', 'dict', 'array', 'asarray', 'np.array', 'np.asarray', 'numpy.array', 'product', 'prod')
TRANSPARENT_CALLS = {'float', 'asarray', 'numpy.asarray', 'array', 'numpy.array',
                     'squeeze', 'numpy.squeeze', 'asfarray', 'np.asarray', 'np.array',
                     'np.squeeze'}
SQRT_CALLS = {'sqrt', 'math.sqrt', 'numpy.sqrt', 'np.sqrt'}
ABS_CALLS = {'abs', 'absolute', 'numpy.abs', 'numpy.absolute', 'np.abs', 'np.absolute', 'fabs', 'math.fabs'}


# ---------------------------------------------------------------- polynomials
def _mono_key(m):
    return repr(m)


def poly_from_items(items):
    """items: dict monomial(tuple of (atom, Fraction exp)) -> Fraction coeff"""
    out = tuple(sorted(((m, c) for m, c in items.items() if c != 0), key=lambda mc: _mono_key(mc[0])))
    return ('poly', out)


def is_poly(t):
    return isinstance(t, tuple) and len(t) == 2 and t[0] == 'poly'


def as_poly(t):
    if is_poly(t):
        return t
    return ('poly', ((((t, Fraction(1)),), Fraction(1)),))


def num(v):
    v = Fraction(v)
    return ('poly', (((), v),)) if v != 0 else ZERO


def poly_const(t):
    """Fraction value if t is a constant polynomial else None"""
    if not is_poly(t):
        return None
    if t[1] == ():
        return Fraction(0)
    if len(t[1]) == 1 and t[1][0][0] == ():
        return t[1][0][1]
    return None


def padd(a, b):
    a, b = as_poly(a), as_poly(b)
    d = dict(a[1])
    for m, c in b[1]:
        d[m] = d.get(m, Fraction(0)) + c
    return poly_from_items(d)


def pneg(a):
    a = as_poly(a)
    return ('poly', tuple((m, -c) for m, c in a[1]))


def _mmul(m1, m2):
    d = dict(m1)
    for a, e in m2:
        d[a] = d.get(a, Fraction(0)) + e
    return tuple(sorted(((a, e) for a, e in d.items() if e != 0), key=lambda ae: repr(ae[0])))


def pmul(a, b):
    a, b = as_poly(a), as_poly(b)
    d = {}
    for m1, c1 in a[1]:
        for m2, c2 in b[1]:
            m = _mmul(m1, m2)
            d[m] = d.get(m, Fraction(0)) + c1 * c2
    return poly_from_items(d)


def ppow(a, e):
    """a ** e for Fraction e"""
    a = as_poly(a)
    e = Fraction(e)
    c = poly_const(a)
    if c is not None and e.denominator == 1 and (c != 0 or e > 0):
        return num(c ** int(e))
    if len(a[1]) == 1:
        m, c = a[1][0]
        if e.denominator == 1:
            if c == 0 and e < 0:
                raise AnalysisError('division by constant zero')
            return poly_from_items({tuple((at, ex * e) for at, ex in m): c ** int(e)})
        if c == 1:
            return poly_from_items({tuple((at, ex * e) for at, ex in m): Fraction(1)})
    if e.denominator == 1 and 0 <= e <= 6:
        r = num(1)
        for _ in range(int(e)):
            r = pmul(r, a)
        return r
    # general case: the whole polynomial becomes an atom with exponent e
    return poly_from_items({((a, e),): Fraction(1)})


def pdiv(a, b):
    return pmul(a, ppow(b, Fraction(-1)))


def atom_of(t):
    """if poly t is exactly one atom with coeff 1 and exponent 1, return the atom"""
    if is_poly(t) and len(t[1]) == 1:
        m, c = t[1][0]
        if c == 1 and len(m) == 1 and m[0][1] == 1:
            return m[0][0]
    return None


def simp(t):
    a = atom_of(t)
    return a if a is not None else t


# ---------------------------------------------------------------- builder
_CMP = {ast.Lt: '<', ast.LtE: '<=', ast.Gt: '>', ast.GtE: '>=', ast.Eq: '==', ast.NotEq: '!=',
        ast.Is: 'is', ast.IsNot: 'isnot', ast.In: 'in', ast.NotIn: 'notin'}
_SWAP = {'>': '<', '>=': '<='}


def mk_cmp(op, a, b):
    if op in _SWAP:
        return ('cmp', _SWAP[op], b, a)
    if op in ('==', '!=') and repr(a) > repr(b):
        a, b = b, a
    return ('cmp', op, a, b)


class Builder(object):
    """turns ast expressions into canonical terms under an environment"""

    strict_casts = False    # when True, asarray(x, dtype=...) / array(x, copy=...) stay visible as calls (they cast)

    def __init__(self, env=None, call_alias=None, name_map=None, on_call=None):
        self.env = dict(env or {})          # local name -> term
        self.call_alias = call_alias or {}  # dotted callee text -> canonical text
        self.name_map = name_map or {}      # role renaming  e.g. {'func':'cost'}
        self.on_call = on_call              # hook(callee_text, args, kws, node) -> term|None

    def copy(self):
        b = Builder(self.env, self.call_alias, self.name_map, self.on_call)
        b._depth = self._depth
        b.strict_casts = self.strict_casts
        return b

    # -- expressions
    def t(self, node):
        m = getattr(self, 't_' + type(node).__name__, None)
        if m is None:
            return ('opaque', ' '.join(unparse(node).split()))
        return m(node)

    def t_Constant(self, node):
        v = node.value
        if isinstance(v, bool) or v is None or isinstance(v, (str, bytes)) or v is Ellipsis:
            return ('const', v)
        if isinstance(v, int):
            return num(v)
        if isinstance(v, float):
            if v != v or v in (float('inf'), float('-inf')):
                return ('const', repr(v))
            return num(Fraction(repr(v)))
        return ('const', repr(v))

    def t_Name(self, node):
        n = node.id
        if n in self.env:
            return self.env[n]
        n = self.name_map.get(n, n)
        return ('name', n)

    def t_Attribute(self, node):
        base = self.t(node.value)
        t = ('attr', simp(base), node.attr)
        key = self._flat(t)
        if key and key in self.env:
            return self.env[key]
        return t

    def _flat(self, t):
        if t[0] == 'name':
            return t[1]
        if t[0] == 'attr':
            b = self._flat(t[1])
            return b + '.' + t[2] if b else None
        return None

    def t_Subscript(self, node):
        base = simp(self.t(node.value))
        idx = self.t_index(node.slice)
        # a subscript of a conditional value is the conditional of the subscripts
        if isinstance(base, tuple) and base and base[0] == 'ifexp' and not isinstance(node.slice, ast.Slice):
            def pick(x):
                if isinstance(x, tuple) and x and x[0] == 'ifexp':
                    return ('ifexp', x[1], pick(x[2]), pick(x[3]))
                k_ = poly_const(idx) if isinstance(idx, tuple) else None
                if isinstance(x, tuple) and x and x[0] in ('list', 'tuple') and k_ is not None and k_.denominator == 1 and -len(x) + 1 <= int(k_) < len(x) - 1:
                    return x[1:][int(k_)]
                return ('sub', x, idx)
            return pick(base)
        # element of a list/tuple display whose value is known (one-element "cells" such as maxfun = [evaluations])
        if isinstance(base, tuple) and base and base[0] in ('list', 'tuple'):
            k = poly_const(idx) if isinstance(idx, tuple) else None
            if k is not None and k.denominator == 1 and -len(base) + 1 <= int(k) < len(base) - 1:
                return base[1:][int(k)]
        return ('sub', base, idx)

    def t_index(self, s):
        if isinstance(s, ast.Slice):
            return ('slice',) + tuple(simp(self.t(x)) if x is not None else None for x in (s.lower, s.upper, s.step))
        if isinstance(s, ast.Tuple):
            return ('tuple',) + tuple(self.t_index(e) for e in s.elts)
        return simp(self.t(s))

    def t_Tuple(self, node):
        return ('tuple',) + tuple(simp(self.t(e)) for e in node.elts)

    def t_List(self, node):
        return ('list',) + tuple(simp(self.t(e)) for e in node.elts)

    def t_Dict(self, node):
        return ('dict',) + tuple((simp(self.t(k)) if k is not None else None, simp(self.t(v)))
                                 for k, v in zip(node.keys, node.values))

    def t_Starred(self, node):
        return ('star', simp(self.t(node.value)))

    def t_UnaryOp(self, node):
        v = self.t(node.operand)
        if isinstance(node.op, ast.USub):
            return pneg(v)
        if isinstance(node.op, ast.UAdd):
            return v
        if isinstance(node.op, ast.Not):
            return ('not', simp(v))
        if isinstance(node.op, ast.Invert):
            return ('invert', simp(v))
        return ('opaque', unparse(node))

    def t_BinOp(self, node):
        a, b = self.t(node.left), self.t(node.right)
        op = node.op
        if isinstance(op, ast.Mod) and (isinstance(node.left, ast.Constant) and isinstance(node.left.value, str)):
            return ('fmt', a, simp(b))
        if isinstance(op, ast.Add):
            if self._is_str(a) or self._is_str(b) or self._is_seq(a) or self._is_seq(b) or (isinstance(a, tuple) and a and a[0] == 'concat'):
                return ('concat', simp(a), simp(b))
            return padd(a, b)
        if isinstance(op, ast.Sub):
            return padd(a, pneg(b))
        if isinstance(op, ast.Mult):
            if self._is_seq(a) or self._is_seq(b) or self._is_str(a) or self._is_str(b):
                return ('repeat', simp(a), simp(b))
            return pmul(a, b)
        if isinstance(op, ast.Div):
            return pdiv(a, b)
        if isinstance(op, ast.Pow):
            e = poly_const(b)
            if e is not None:
                return ppow(a, e)
            return ('pow', simp(a), simp(b))
        name = {ast.Mod: 'mod', ast.FloorDiv: 'floordiv', ast.BitAnd: 'bitand', ast.BitOr: 'bitor',
                ast.BitXor: 'bitxor', ast.LShift: 'lshift', ast.RShift: 'rshift', ast.MatMult: 'matmul'}.get(type(op), 'binop')
        a, b = simp(a), simp(b)
        if name in ('bitand', 'bitor', 'bitxor') and repr(a) > repr(b):
            a, b = b, a
        return (name, a, b)

    @staticmethod
    def _is_str(t):
        return isinstance(t, tuple) and ((t[0] == 'const' and isinstance(t[1], str)) or t[0] in ('fmt', 'concat_str'))

    @staticmethod
    def _is_seq(t):
        return isinstance(t, tuple) and t[0] in ('list', 'tuple')

    def t_BoolOp(self, node):
        vals = tuple(simp(self.t(v)) for v in node.values)
        return ('and' if isinstance(node.op, ast.And) else 'or',) + vals

    def t_Compare(self, node):
        parts = []
        # a is b is None: every link of a chain of `is` that ends in a constant is that constant (num is denom is None == num is None and denom is None)
        if len(node.ops) > 1 and all(isinstance(o, ast.Is) for o in node.ops) and isinstance(node.comparators[-1], ast.Constant):
            last = simp(self.t(node.comparators[-1]))
            return ('and',) + tuple(mk_cmp('is', simp(self.t(e)), last) for e in [node.left] + list(node.comparators[:-1]))
        left = simp(self.t(node.left))
        for op, right in zip(node.ops, node.comparators):
            r = simp(self.t(right))
            parts.append(mk_cmp(_CMP[type(op)], left, r))
            left = r
        if len(parts) == 1:
            return parts[0]
        return ('and',) + tuple(parts)

    def t_IfExp(self, node):
        c, a, b = simp(self.t(node.test)), simp(self.t(node.body)), simp(self.t(node.orelse))
        if c == a:
            return ('or', a, b)          # x if x else d  is  x or d
        # a negated test is the positive test with the branches swapped
        flip = {'notin': 'in', 'isnot': 'is', '!=': '=='}
        while True:
            if isinstance(c, tuple) and c and c[0] == 'not':
                c, a, b = c[1], b, a
            elif isinstance(c, tuple) and c and c[0] == 'cmp' and c[1] in flip:
                c, a, b = ('cmp', flip[c[1]]) + c[2:], b, a
            else:
                break
        return ('ifexp', c, a, b)

    # bound variables (lambda arguments, comprehension targets) are alpha-renamed to canonical
    # names so that renaming them does not change the term
    _depth = 0

    def _bind(self, b, names):
        out = []
        for nm in names:
            canon = '_b%d' % b._depth
            b._depth += 1
            b.env[nm] = ('name', canon)
            out.append(canon)
        return out

    def t_Lambda(self, node):
        b = self.copy()
        b._depth = self._depth
        a = node.args
        names = [x.arg for x in a.posonlyargs + a.args] + ([a.vararg.arg] if a.vararg else []) + \
            [x.arg for x in a.kwonlyargs] + ([a.kwarg.arg] if a.kwarg else [])
        canon = self._bind(b, names)
        dflt = tuple(simp(self.t(d)) for d in a.defaults)
        return ('lambda', tuple(canon), dflt, simp(b.t(node.body)))

    def _comp(self, kind, node, elts):
        b = self.copy()
        b._depth = self._depth
        gens = []
        for g in node.generators:
            it = simp(b.t(g.iter))
            names = [n.id for n in ast.walk(g.target) if isinstance(n, ast.Name)]
            self._bind(b, names)
            tg = simp(b.t(g.target))
            ifs = tuple(simp(b.t(i)) for i in g.ifs)
            gens.append((tg, it, ifs))
        return (kind, tuple(simp(b.t(e)) for e in elts), tuple(gens))

    def t_ListComp(self, node):
        return self._comp('listcomp', node, [node.elt])

    def t_GeneratorExp(self, node):
        return self._comp('genexp', node, [node.elt])

    def t_SetComp(self, node):
        return self._comp('setcomp', node, [node.elt])

    def t_DictComp(self, node):
        return self._comp('dictcomp', node, [node.key, node.value])

    def t_Set(self, node):
        return ('set',) + tuple(sorted((simp(self.t(e)) for e in node.elts), key=repr))

    def t_JoinedStr(self, node):
        return ('opaque', unparse(node))

    def callee_text(self, f):
        txt = unparse(f)
        return self.call_alias.get(txt, txt)

    def t_Call(self, node):
        fn = node.func
        ctext = None
        if isinstance(fn, (ast.Name, ast.Attribute)):
            ctext = self.callee_text(fn)
        args = tuple(simp(self.t(a)) for a in node.args)
        # f(*(a, b)) / f(*[a, b]) is f(a, b): a literal sequence unpacked in place
        if any(isinstance(a, tuple) and a[:1] == ('star',) and isinstance(a[1], tuple) and a[1][:1] in (('tuple',), ('list',)) for a in args):
            ex = []
            for a in args:
                if isinstance(a, tuple) and a[:1] == ('star',) and isinstance(a[1], tuple) and a[1][:1] in (('tuple',), ('list',)):
                    ex.extend(a[1][1:])
                else:
                    ex.append(a)
            args = tuple(ex)
        # f(*e) where e is an element of enumerate(...) is f(e[0], e[1]): such elements are pairs
        if any(isinstance(a, tuple) and a[:1] == ('star',) and isinstance(a[1], tuple) and a[1][:1] == ('elem',) and isinstance(a[1][1], tuple)
               and a[1][1][:1] == ('call',) and show(a[1][1][1]) == 'enumerate' for a in args):
            ex = []
            for a in args:
                if isinstance(a, tuple) and a[:1] == ('star',) and isinstance(a[1], tuple) and a[1][:1] == ('elem',) and show(a[1][1][1]) == 'enumerate':
                    ex.extend([('sub', a[1], num(0)), ('sub', a[1], num(1))])
                else:
                    ex.append(a)
            args = tuple(ex)
        kws = tuple(sorted(((k.arg, simp(self.t(k.value))) for k in node.keywords), key=lambda kv: str(kv[0])))
        # a generator consumed whole by an exhaustive consumer is the list of its elements (same evaluations, same
        # order); any()/all() are NOT in the table: they stop early, so the number of evaluations differs
        if ctext in EXHAUSTIVE_CONSUMERS and len(args) >= 1 and isinstance(args[0], tuple) and args[0] and args[0][0] == 'genexp':
            args = (('listcomp',) + args[0][1:],) + args[1:]
        if ctext == 'list' and len(args) == 1 and not kws and isinstance(args[0], tuple) and args[0] and args[0][0] == 'listcomp':
            return args[0]
        if self.on_call is not None:
            r = self.on_call(ctext, args, kws, node, self)
            if r is not None:
                return r
        if isinstance(fn, ast.Name) and fn.id in self.env:
            f_t = self.env[fn.id]
        elif ctext is not None:
            base = None
            if isinstance(fn, ast.Attribute):
                # method call on a substituted local: keep receiver as a term
                recv = simp(self.t(fn.value))
                f_t = ('attr', recv, fn.attr)
                flat = self._flat(f_t)
                if flat:
                    flat = self.call_alias.get(flat, flat)
                    f_t = ('name', flat) if '.' not in flat else f_t
                    ctext = flat
            else:
                f_t = ('name', self.name_map.get(ctext, ctext))
                ctext = self.name_map.get(ctext, ctext)
        else:
            f_t = simp(self.t(fn))
        if ctext in ('list', 'dict', 'tuple') and not args and not kws and ctext not in self.env:
            return (ctext,)          # list() / dict() / tuple() are the empty literals [] / {} / ()
        if ctext in TRANSPARENT_CALLS and len(args) >= 1 and not (self.strict_casts and (kws or len(args) > 1)):
            return self._unsimp(args[0])     # a plain conversion; under strict_casts a dtype=/copy= argument keeps it visible as a cast
        if isinstance(fn, ast.Attribute) and fn.attr == 'get' and 1 <= len(args) <= 2 and not kws and isinstance(f_t, tuple) and f_t[0] == 'attr':
            # d.get(k, default)  is  d[k] if k in d else default   (mapping protocol)
            d_ = f_t[1]
            return ('ifexp', mk_cmp('in', args[0], d_), ('sub', d_, args[0]), args[1] if len(args) == 2 else ('const', None))
        if ctext == 'range' and len(args) == 2 and not kws and args[0] == num(0):
            args = args[1:]                # range(0, n) is range(n)
        if ctext in SQRT_CALLS and len(args) == 1:
            return ppow(self._unsimp(args[0]), Fraction(1, 2))
        if ctext == 'pow' and len(args) == 2:
            e = poly_const(self._unsimp(args[1]))
            if e is not None:
                return ppow(self._unsimp(args[0]), e)
        if ctext in ABS_CALLS and len(args) == 1:
            return ('call', ('name', 'abs'), args, ())
        return ('call', f_t, args, kws)

    @staticmethod
    def _unsimp(t):
        return t

    # -- statements (straight-line forward substitution)
    def assign(self, target, value_term):
        if isinstance(target, ast.Name):
            self.env[target.id] = value_term
        elif isinstance(target, ast.Attribute):
            k = self._flat(self.t_attr_raw(target))
            if k:
                self.env[k] = value_term
        elif isinstance(target, ast.Subscript) and isinstance(target.value, ast.Name) and \
                isinstance(self.env.get(target.value.id), tuple) and self.env[target.value.id][:1] == ('list',):
            # store into a known list display: cell[k] = v
            cur = self.env[target.value.id]
            k = poly_const(self.t_index(target.slice)) if not isinstance(target.slice, ast.Slice) else None
            if k is not None and k.denominator == 1 and -len(cur) + 1 <= int(k) < len(cur) - 1:
                elems = list(cur[1:])
                elems[int(k)] = simp(value_term)
                self.env[target.value.id] = ('list',) + tuple(elems)
            else:
                self.env.pop(target.value.id, None)
        elif isinstance(target, (ast.Tuple, ast.List)):
            vt = simp(value_term)
            for i, e in enumerate(target.elts):
                if isinstance(vt, tuple) and vt and vt[0] in ('tuple', 'list') and len(vt) - 1 == len(target.elts):
                    self.assign(e, vt[i + 1])
                else:
                    self.assign(e, ('sub', vt, num(i)))

    def t_attr_raw(self, node):
        if isinstance(node, ast.Name):
            return ('name', node.id)
        if isinstance(node, ast.Attribute):
            return ('attr', self.t_attr_raw(node.value), node.attr)
        return ('opaque', unparse(node))

    def exec_stmt(self, st):
        """apply one simple statement to the environment; returns False if the
        statement is not a simple (Ann/Aug)Assign"""
        if isinstance(st, ast.FunctionDef) and not st.decorator_list:
            # a nested one-expression function is the lambda it could have been written as
            body = [b for b in st.body if not (isinstance(b, ast.Expr) and isinstance(b.value, ast.Constant))]
            if len(body) == 1 and isinstance(body[0], ast.Return) and body[0].value is not None:
                lam = ast.Lambda(args=st.args, body=body[0].value)
                self.env[st.name] = self.t(lam)
                return True
            return False
        if isinstance(st, ast.Assign):
            v = self.t(st.value)
            for tg in st.targets:
                self.assign(tg, v)
            return True
        if isinstance(st, ast.AugAssign) and isinstance(st.target, ast.Name):
            cur = self.t(st.target)
            v = self.t(st.value)
            op = type(st.op)
            if op is ast.Add:
                if self._is_str(cur) or self._is_str(v) or self._is_seq(cur) or self._is_seq(v) or (isinstance(cur, tuple) and cur and cur[0] == 'concat'):
                    r = ('concat', simp(cur), simp(v))     # sequence/str concatenation keeps its order (same as `cur = cur + v`)
                else:
                    r = padd(cur, v)
            elif op is ast.Sub:
                r = padd(cur, pneg(v))
            elif op is ast.Mult:
                if self._is_seq(cur) or self._is_seq(v) or self._is_str(cur) or self._is_str(v):
                    r = ('repeat', simp(cur), simp(v))
                else:
                    r = pmul(cur, v)
            elif op is ast.Div:
                r = pdiv(cur, v)
            else:
                r = ('augop', op.__name__, simp(cur), simp(v))
            self.env[st.target.id] = r
            return True
        return False


def term(node, **kw):
    return simp(Builder(**kw).t(node))


# ---------------------------------------------------------------- helpers
def show(t, depth=0):
    """human-readable rendering of a term"""
    if not isinstance(t, tuple):
        return repr(t)
    if not t:
        return '()'
    k = t[0]
    if k == 'poly':
        if not t[1]:
            return '0'
        parts = []
        for m, c in t[1]:
            fs = []
            for a, e in m:
                s = show(a)
                if e != 1:
                    s = '(%s)**%s' % (s, e)
                fs.append(s)
            body = '*'.join(fs)
            if not fs:
                parts.append(str(c))
            elif c == 1:
                parts.append(body)
            elif c == -1:
                parts.append('-' + body)
            else:
                parts.append('%s*%s' % (c, body))
        return '(' + ' + '.join(parts) + ')'
    if k == 'name':
        return t[1]
    if k == 'const':
        return repr(t[1])
    if k == 'attr':
        return '%s.%s' % (show(t[1]), t[2])
    if k == 'sub':
        return '%s[%s]' % (show(t[1]), show(t[2]))
    if k == 'slice':
        return ':'.join('' if x is None else show(x) for x in t[1:])
    if k == 'call':
        a = [show(x) for x in t[2]] + ['%s=%s' % (n, show(v)) for n, v in t[3]]
        return '%s(%s)' % (show(t[1]), ', '.join(a))
    if k == 'cmp':
        return '(%s %s %s)' % (show(t[2]), t[1], show(t[3]))
    if k in ('and', 'or'):
        return '(' + (' %s ' % k).join(show(x) for x in t[1:]) + ')'
    if k == 'not':
        return 'not ' + show(t[1])
    if k in ('tuple', 'list'):
        return ('(%s)' if k == 'tuple' else '[%s]') % ', '.join(show(x) for x in t[1:])
    if k == 'opaque':
        return t[1]
    return '%s(%s)' % (k, ', '.join(show(x) if isinstance(x, tuple) else repr(x) for x in t[1:]))


def subterms(t):
    yield t
    if isinstance(t, tuple):
        for x in t[1:] if t and isinstance(t[0], str) else t:
            if isinstance(x, tuple):
                for s in subterms(x):
                    yield s


def contains(t, pred):
    return any(pred(s) for s in subterms(t))


def atoms_of(t):
    """atoms (non-poly subterms) reachable in polynomial positions"""
    if is_poly(t):
        for m, c in t[1]:
            for a, e in m:
                yield a
    else:
        yield t


# ---------------------------------------------------------------- substitution / case splitting
def substitute(t, old, new):
    """replace every occurrence of subterm `old` by `new`, rebuilding polynomials"""
    if t == old:
        return new
    if not isinstance(t, tuple) or not t:
        return t
    if is_poly(t):
        total = ZERO
        for m, c in t[1]:
            term = num(c)
            for a, e in m:
                a2 = substitute(a, old, new)
                term = pmul(term, ppow(as_poly(a2) if is_poly(a2) else a2, e))
            total = padd(total, term)
        return simp(total)
    if isinstance(t[0], str):
        return (t[0],) + tuple(substitute(x, old, new) if isinstance(x, tuple) else x for x in t[1:])
    return tuple(substitute(x, old, new) if isinstance(x, tuple) else x for x in t)


def find_free_ifexp(t):
    """a conditional sub-term that is not inside a lambda / comprehension (its test does not depend on bound variables)"""
    if not isinstance(t, tuple) or not t:
        return None
    if t[0] == 'ifexp':
        return t
    if t[0] in ('lambda', 'listcomp', 'genexp', 'setcomp', 'dictcomp'):
        return None
    for x in t[1:]:
        r = find_free_ifexp(x)
        if r is not None:
            return r
    return None


def free_cases(t, limit=64):
    """like cases(), but conditionals under binders are left alone"""
    out = []
    work = [((), t)]
    while work:
        lits, cur = work.pop()
        ie = find_free_ifexp(cur)
        if ie is None:
            out.append((lits, cur))
            continue
        if len(out) + len(work) > limit:
            raise AnalysisError('too many conditional cases')
        work.append((lits + ((ie[1], True),), simp(substitute(cur, ie, ie[2]))))
        work.append((lits + ((ie[1], False),), simp(substitute(cur, ie, ie[3]))))
    return out


def find_ifexp(t):
    for s in subterms(t):
        if isinstance(s, tuple) and s and s[0] == 'ifexp':
            return s
    return None


def cases(t, limit=64):
    """[(literals, leaf)] : the conditional expression tree of t flattened; literals are (cond term, truth)"""
    out = []
    work = [((), t)]
    while work:
        lits, cur = work.pop()
        ie = find_ifexp(cur)
        if ie is None:
            out.append((lits, cur))
            continue
        if len(out) + len(work) > limit:
            raise AnalysisError('too many conditional cases')
        work.append((lits + ((ie[1], True),), simp(substitute(cur, ie, ie[2]))))
        work.append((lits + ((ie[1], False),), simp(substitute(cur, ie, ie[3]))))
    return out
