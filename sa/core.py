"""Rule registry, verdict bookkeeping, evidence and known-findings plumbing."""
import json
import os
import random
import sys
import time
import traceback

from .srcmodel import Model, AnalysisError, norm_stmt, unparse

VERIF = os.path.dirname(os.path.dirname(os.path.abspath(__file__)))
RULES = {}   # property id -> list of (rule_id, fn, min_instances, doc)


def rule(rule_id, min_instances=1, tier='quick'):
    prop = rule_id.split('.')[0]

    def deco(fn):
        RULES.setdefault(prop, []).append((rule_id, fn, min_instances, (fn.__doc__ or '').strip(), tier))
        return fn
    return deco


class Ctx(object):
    def __init__(self, prop, model, tier='quick', seed=0):
        self.prop = prop
        self.model = model
        self.tier = tier
        self.seed = seed
        self.obligations = []
        self.violations = []
        self.current_rule = None
        self.stats = {'paths_enumerated': 0, 'orderings_enumerated': 0, 'truth_table_rows': 0,
                      'call_sites': 0, 'terms_compared': 0, 'functions_reached': 0}
        self.functions = {}
        self.notes = []
        self._cg = None

    @property
    def cg(self):
        if self._cg is None:
            from .callgraph import CallGraph
            self._cg = CallGraph(self.model)
        return self._cg

    # -- anchors
    def func(self, anchor):
        f = self.model.func(anchor)
        self.functions[f.anchor] = f
        return f

    def cls(self, anchor):
        return self.model.cls(anchor)

    def touch(self, finfo):
        self.functions[finfo.anchor] = finfo
        return finfo

    # -- verdicts
    def _where(self, finfo, node):
        file = finfo.file if finfo is not None else None
        line = getattr(node, 'lineno', None) if node is not None else (finfo.line if finfo is not None else None)
        return file, line

    def ok(self, construct, detail='', finfo=None, node=None, rule=None):
        file, line = self._where(finfo, node)
        self.obligations.append({'rule': rule or self.current_rule, 'construct': construct, 'verdict': 'HOLDS',
                                 'file': file, 'line': line, 'detail': detail})

    def bad(self, construct, message, finfo=None, node=None, rule=None, statement=None):
        file, line = self._where(finfo, node)
        st = statement if statement is not None else (norm_stmt(node) if node is not None else '')
        rec = {'rule': rule or self.current_rule, 'construct': construct, 'verdict': 'VIOLATION',
               'file': file, 'line': line, 'detail': message, 'statement': st}
        self.obligations.append(rec)
        self.violations.append(rec)

    def check(self, cond, construct, ok_detail, bad_message, finfo=None, node=None, statement=None):
        if cond:
            self.ok(construct, ok_detail, finfo, node)
        else:
            self.bad(construct, bad_message, finfo, node, statement=statement)
        return cond

    def bad_keys(self):
        return [v['construct'] for v in self.violations]

    def undecided(self, msg):
        raise AnalysisError('%s: %s' % (self.current_rule, msg))

    def need(self, cond, msg):
        if not cond:
            self.undecided(msg)

    def note(self, msg):
        self.notes.append('%s: %s' % (self.current_rule, msg))


# ---------------------------------------------------------------- known findings
def load_known(path=None):
    path = path or os.path.join(VERIF, 'known_findings.json')
    if not os.path.exists(path):
        return {'findings': [], 'fixed': []}
    with open(path) as f:
        return json.load(f)


def match_known(v, known, prop):
    for k in known.get('findings', []):
        if k.get('property') != prop:
            continue
        if k.get('rule') != v['rule']:
            continue
        if k.get('construct') != v['construct']:
            continue
        ks = k.get('statement')
        if ks is not None and ' '.join(ks.split()) != ' '.join((v.get('statement') or '').split()):
            continue
        return k
    return None


# ---------------------------------------------------------------- driver
def run_property(prop, repo='/repo', tier='quick', seed=0, evidence_dir=None, only_rule=None,
                 quiet=False, extra_coverage=None):
    """returns (exit_code, evidence dict)"""
    t0 = time.time()
    out = sys.stdout
    if evidence_dir is None:
        evidence_dir = os.path.join(VERIF, 'evidence')
    from . import rules as _rules  # noqa: F401  (registers everything)
    _rules.load(prop)
    if prop not in RULES:
        print('ANALYSIS-ERROR property=%s no rules registered' % prop)
        return 2, None
    try:
        model = Model(repo)
    except AnalysisError as e:
        print('ANALYSIS-ERROR property=%s %s' % (prop, e))
        return 2, None
    ctx = Ctx(prop, model, tier, seed)
    errors = []
    rules_run = []
    for rule_id, fn, min_inst, doc, rtier in RULES[prop]:
        if only_rule and rule_id != only_rule:
            continue
        if rtier == 'thorough' and tier != 'thorough':
            continue
        ctx.current_rule = rule_id
        before = len(ctx.obligations)
        try:
            fn(ctx)
            n = len(ctx.obligations) - before
            if n < min_inst:
                raise AnalysisError('%s: only %d rule instances found, %d confirmed by hand - '
                                    'the construct this rule looks at is no longer recognised' % (rule_id, n, min_inst))
            rules_run.append({'rule': rule_id, 'instances': n, 'what': doc.split('\n')[0]})
        except AnalysisError as e:
            errors.append('%s' % e)
        except RecursionError as e:
            errors.append('%s: recursion limit' % rule_id)
        except Exception as e:  # checker bug or unknown shape: never an alarm
            tb = traceback.format_exc().strip().splitlines()
            errors.append('%s: internal error %s: %s [%s]' % (rule_id, type(e).__name__, e, tb[-3].strip() if len(tb) > 2 else ''))
    known = load_known()
    new_viol, known_hits = [], []
    for v in ctx.violations:
        k = match_known(v, known, prop)
        if k is not None:
            known_hits.append((v, k))
        else:
            new_viol.append(v)
    # ---- report
    if not quiet:
        print('== %s tier=%s repo=%s : %d rules, %d obligations, %d functions analysed' % (
            prop, tier, repo, len(rules_run), len(ctx.obligations), len(ctx.functions)))
        for r in rules_run:
            print('   rule %-8s instances=%-3d %s' % (r['rule'], r['instances'], r['what'][:90]))
    seen_known = set()
    for v, k in known_hits:
        key = (k.get('rule'), k.get('construct'), k.get('statement'))
        if key in seen_known:
            continue
        seen_known.add(key)
        print('KNOWN-FINDING: property=%s %s [%s %s %s:%s]' % (prop, k.get('what_fails'), v['rule'], v['construct'], v['file'], v['line']))
    replay_dir = os.path.join(evidence_dir, 'replay')
    code = 0
    for i, v in enumerate(new_viol):
        os.makedirs(replay_dir, exist_ok=True)
        rp = os.path.join(replay_dir, '%s-%d.json' % (prop, i))
        with open(rp, 'w') as f:
            json.dump({'property': prop, 'rule': v['rule'], 'construct': v['construct'], 'file': v['file'],
                       'line': v['line'], 'statement': v.get('statement'), 'message': v['detail'], 'repo': repo}, f, indent=1)
        print('%s:%s: %s %s: %s' % (v['file'], v['line'], v['rule'], v['construct'], v['detail']))
        if v.get('statement'):
            print('    statement: %s' % v['statement'][:200])
        print('VIOLATION property=%s replay=%s' % (prop, rp))
        code = 1
    for e in errors:
        print('ANALYSIS-ERROR property=%s %s' % (prop, e))
    if errors:
        code = 2 if code == 0 else code
        if code == 1:
            pass
    # ---- evidence
    rnd = random.Random(seed)
    obl = ctx.obligations
    holds = [o for o in obl if o['verdict'] == 'HOLDS']
    distinct = set((o['rule'], o['construct'], o['line']) for o in obl if o['line'] is not None)
    samples = list(obl)
    rnd.shuffle(samples)
    samples = samples[:12]
    ev = {
        'property_id': prop, 'tier': tier, 'seed': int(seed), 'level': 'other',
        'coverage': {
            'explanation': 'static analysis of %s (ast only, nothing imported or run): %s' % (
                repo, '; '.join('%s = %s' % (r['rule'], r['what']) for r in rules_run)),
            'obligations': len(obl), 'discharged': len(holds) + len(known_hits),
            'evaluations': len(obl), 'distinct_nontrivial': len(distinct),
            'rule': 'one evaluation = one rule instance (rule x construct) decided on the current source; '
                    'distinct and non-trivial = distinct (rule, construct, source line) whose verdict was computed '
                    'from at least one analysed statement',
            'samples': [{k: o[k] for k in ('rule', 'construct', 'verdict', 'file', 'line', 'detail')} for o in samples],
            'rules': rules_run,
            'functions_analysed': sorted(ctx.functions),
            'function_digests': {a: f.digest() for a, f in sorted(ctx.functions.items())},
            'modules_parsed': len(model.modules),
            'known_findings_matched': [k.get('what_fails') for _, k in known_hits],
            'analysis_errors': errors,
            'notes': ctx.notes[:50],
            'checker_cmd': './check %s --tier %s' % (prop, tier),
            'trusted_base': ['python ast parser', 'the rule tables in /verif/sa/rules (transcribed from the '
                             'repository docstrings and cited papers)', 'numpy/dill/sympy contracts'],
            'exhaustive': True,
        },
        'assumptions': ['user callables (cost, constraints, penalty, termination, map) are outside the analysed program',
                        'no monkey-patching of mystic at run time', 'NaN excluded from order abstractions'],
        'wall_s': round(time.time() - t0, 3), 'violations': len(new_viol),
    }
    ev['coverage'].update(ctx.stats)
    if extra_coverage:
        ev['coverage'].update(extra_coverage)
    return code, ev


def write_evidence(ev, evidence_dir=None):
    evidence_dir = evidence_dir or os.path.join(VERIF, 'evidence')
    os.makedirs(evidence_dir, exist_ok=True)
    p = os.path.join(evidence_dir, '%s.json' % ev['property_id'])
    with open(p, 'w') as f:
        json.dump(ev, f, indent=1, default=str)
    return p
