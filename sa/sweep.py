"""Generated self-validation for the thorough tier: neutral refactorings and a mutation sample.

Both work on scratch copies of ``<repo>/mystic`` in fresh temporary directories
(outside /repo and /verif, removed immediately) and only on the source files that
contain functions the property's rules analysed on the current tree.

neutral sweep  - behaviour-preserving AST transformations of one whole file
                 (reformat, dead local at the top of every function, swapped
                 comparison operands, `return e` through a temporary, `x += y`
                 spelled out, renamed purely-local variables).  The check must
                 not report a VIOLATION (a false alarm of the checker).  An
                 ANALYSIS-ERROR (rule keyed on a renamed local) is tolerated and
                 counted: it is the documented UNDECIDED answer.
mutation sample - single-node behaviour-changing edits inside the analysed
                 functions (comparison/boolean/arithmetic operator, negated
                 test, deleted statement, shifted constant, swapped arguments),
                 sampled with VERIF_SEED.  Reported as killed / survived /
                 undecided; survivors are listed in the evidence.  Not a gate:
                 many single-node edits do not break the property.
"""
import ast
import concurrent.futures as cf
import contextlib
import copy
import io
import os
import random
import shutil
import tempfile


# ---------------------------------------------------------------- neutral transformations
class _SwapCompare(ast.NodeTransformer):
    SW = {ast.Lt: ast.Gt, ast.Gt: ast.Lt, ast.LtE: ast.GtE, ast.GtE: ast.LtE, ast.Eq: ast.Eq, ast.NotEq: ast.NotEq}

    def visit_Compare(self, node):
        self.generic_visit(node)
        if len(node.ops) == 1 and type(node.ops[0]) in self.SW:
            # evaluation order of two side-effect-free operands does not matter; keep calls in place
            if not any(isinstance(n, (ast.Call, ast.Yield, ast.Await, ast.NamedExpr)) for n in ast.walk(node)):
                return ast.copy_location(ast.Compare(left=node.comparators[0], ops=[self.SW[type(node.ops[0])]()], comparators=[node.left]), node)
        return node


class _ReturnTemp(ast.NodeTransformer):
    def _body(self, body):
        out = []
        for st in body:
            if isinstance(st, ast.Return) and st.value is not None and not isinstance(st.value, (ast.Name, ast.Constant)):
                out.append(ast.copy_location(ast.Assign(targets=[ast.Name(id='_verif_ret', ctx=ast.Store())], value=st.value), st))
                out.append(ast.copy_location(ast.Return(value=ast.Name(id='_verif_ret', ctx=ast.Load())), st))
            else:
                out.append(st)
        return out

    def generic_visit(self, node):
        super().generic_visit(node)
        for field in ('body', 'orelse', 'finalbody'):
            b = getattr(node, field, None)
            if isinstance(b, list) and b and isinstance(b[0], ast.stmt):
                setattr(node, field, self._body(b))
        return node


class _DeadLocal(ast.NodeTransformer):
    def visit_FunctionDef(self, node):
        self.generic_visit(node)
        probe = ast.Assign(targets=[ast.Name(id='_verif_probe', ctx=ast.Store())], value=ast.Constant(value=None))
        i = 1 if node.body and isinstance(node.body[0], ast.Expr) and isinstance(node.body[0].value, ast.Constant) else 0
        while i < len(node.body) and isinstance(node.body[i], (ast.Global, ast.Nonlocal, ast.Import, ast.ImportFrom)):
            i += 1
        node.body.insert(i, ast.copy_location(probe, node.body[min(i, len(node.body) - 1)]))
        return node


class _SpellAug(ast.NodeTransformer):
    def visit_AugAssign(self, node):
        if isinstance(node.target, ast.Name) and isinstance(node.op, (ast.Add, ast.Sub, ast.Mult)):
            load = ast.Name(id=node.target.id, ctx=ast.Load())
            return ast.copy_location(ast.Assign(targets=[node.target], value=ast.BinOp(left=load, op=node.op, right=node.value)), node)
        return node


class _RenameLocals(ast.NodeTransformer):
    """rename variables that are purely local to a function without nested scopes / exec / locals()"""

    def visit_FunctionDef(self, node):
        nested = [n for n in ast.walk(node) if n is not node and isinstance(n, (ast.FunctionDef, ast.AsyncFunctionDef, ast.Lambda, ast.ClassDef,
                                                                                   ast.ListComp, ast.SetComp, ast.DictComp, ast.GeneratorExp))]
        danger = [n for n in ast.walk(node) if isinstance(n, ast.Name) and n.id in ('exec', 'eval', 'locals', 'vars', 'globals')]
        if nested or danger:
            for n in nested:
                pass
            return node
        params = set(a.arg for a in node.args.posonlyargs + node.args.args + node.args.kwonlyargs)
        if node.args.vararg:
            params.add(node.args.vararg.arg)
        if node.args.kwarg:
            params.add(node.args.kwarg.arg)
        glob = set()
        for n in ast.walk(node):
            if isinstance(n, (ast.Global, ast.Nonlocal)):
                glob.update(n.names)
        stored = set(n.id for n in ast.walk(node) if isinstance(n, ast.Name) and isinstance(n.ctx, (ast.Store, ast.Del)))
        imported = set()
        for n in ast.walk(node):
            if isinstance(n, (ast.Import, ast.ImportFrom)):
                for a in n.names:
                    imported.add((a.asname or a.name).split('.')[0])
        local = stored - params - glob - imported
        if not local:
            return node
        m = {v: v + '_lv' for v in local}
        for n in ast.walk(node):
            if isinstance(n, ast.Name) and n.id in m:
                n.id = m[n.id]
        return node


NEUTRAL = {
    'reformat': lambda tree: tree,
    'dead-local': lambda tree: _DeadLocal().visit(tree),
    'swap-compare': lambda tree: _SwapCompare().visit(tree),
    'return-temp': lambda tree: _ReturnTemp().visit(tree),
    'spell-augassign': lambda tree: _SpellAug().visit(tree),
    'rename-locals': lambda tree: _RenameLocals().visit(tree),
}


def _transform(src, name):
    tree = ast.parse(src)
    tree = NEUTRAL[name](tree)
    ast.fix_missing_locations(tree)
    out = ast.unparse(tree)
    compile(out, '<neutral>', 'exec')
    return out


# ---------------------------------------------------------------- mutation operators
CMP = {ast.Lt: [ast.LtE, ast.Gt], ast.LtE: [ast.Lt, ast.GtE], ast.Gt: [ast.GtE, ast.Lt], ast.GtE: [ast.Gt, ast.LtE],
       ast.Eq: [ast.NotEq], ast.NotEq: [ast.Eq], ast.Is: [ast.IsNot], ast.IsNot: [ast.Is], ast.In: [ast.NotIn], ast.NotIn: [ast.In]}
ARITH = {ast.Add: ast.Sub, ast.Sub: ast.Add, ast.Mult: ast.Div, ast.Div: ast.Mult}


def mutation_sites(fnode):
    """[(kind, node, variant)] inside one function (nested defs included)"""
    out = []
    for n in ast.walk(fnode):
        if isinstance(n, ast.Compare) and len(n.ops) == 1 and type(n.ops[0]) in CMP:
            for k, alt in enumerate(CMP[type(n.ops[0])]):
                out.append(('cmp', n, k))
        elif isinstance(n, ast.BoolOp):
            out.append(('bool', n, 0))
        elif isinstance(n, ast.BinOp) and type(n.op) in ARITH and not isinstance(n.left, ast.Constant) and not (isinstance(n.left, ast.Constant) and isinstance(n.left.value, str)):
            out.append(('arith', n, 0))
        elif isinstance(n, (ast.If, ast.While, ast.IfExp)):
            out.append(('negate', n, 0))
        elif isinstance(n, ast.Constant) and isinstance(n.value, (int, float)) and not isinstance(n.value, bool):
            out.append(('const', n, 0))
        elif isinstance(n, ast.Call) and len(n.args) >= 2 and not any(isinstance(a, ast.Starred) for a in n.args[:2]):
            out.append(('argswap', n, 0))
        elif isinstance(n, (ast.Assign, ast.AugAssign)) or (isinstance(n, ast.Expr) and isinstance(n.value, ast.Call)):
            out.append(('delete', n, 0))
        elif isinstance(n, ast.Subscript) and isinstance(n.slice, ast.UnaryOp) and isinstance(n.slice.op, ast.USub) and isinstance(n.slice.operand, ast.Constant):
            out.append(('index', n, 0))
    return out


def apply_mutation(kind, n, variant):
    if kind == 'cmp':
        n.ops = [CMP[type(n.ops[0])][variant]()]
    elif kind == 'bool':
        n.op = ast.Or() if isinstance(n.op, ast.And) else ast.And()
    elif kind == 'arith':
        n.op = ARITH[type(n.op)]()
    elif kind == 'negate':
        n.test = ast.UnaryOp(op=ast.Not(), operand=n.test)
    elif kind == 'const':
        n.value = n.value + 1 if isinstance(n.value, int) else n.value * 2 + 1.0
    elif kind == 'argswap':
        n.args[0], n.args[1] = n.args[1], n.args[0]
    elif kind == 'delete':
        return 'replace-with-pass'
    elif kind == 'index':
        n.slice.operand = ast.Constant(value=n.slice.operand.value + 1)
    return None


def _mutate_file(src, qualname, site_index):
    """apply the site_index-th mutation site of function `qualname`; returns (new source, description) or None"""
    tree = ast.parse(src)
    target = None
    parts = qualname.split('.')

    def find(body, parts):
        for st in body:
            if isinstance(st, (ast.FunctionDef, ast.ClassDef)) and st.name == parts[0].split('#')[0]:
                if len(parts) == 1:
                    return st
                return find_nested(st, parts[1:])
        return None

    def find_nested(node, parts):
        cands = [n for n in ast.walk(node) if n is not node and isinstance(n, (ast.FunctionDef, ast.ClassDef)) and n.name == parts[0].split('#')[0]]
        if not cands:
            return None
        idx = int(parts[0].split('#')[1]) - 1 if '#' in parts[0] else 0
        cands.sort(key=lambda n: n.lineno)
        c = cands[min(idx, len(cands) - 1)]
        return c if len(parts) == 1 else find_nested(c, parts[1:])
    target = find(tree.body, parts)
    if target is None:
        return None
    sites = mutation_sites(target)
    if site_index >= len(sites):
        return None
    kind, node, variant = sites[site_index]
    before = ' '.join(ast.unparse(node).split())[:100]
    line = getattr(node, 'lineno', 0)
    r = apply_mutation(kind, node, variant)
    if r == 'replace-with-pass':
        for parent in ast.walk(tree):
            for field in ('body', 'orelse', 'finalbody'):
                b = getattr(parent, field, None)
                if isinstance(b, list) and node in b:
                    b[b.index(node)] = ast.copy_location(ast.Pass(), node)
    ast.fix_missing_locations(tree)
    try:
        out = ast.unparse(tree)
        compile(out, '<mutant>', 'exec')
    except Exception:
        return None
    after = 'pass' if r else ' '.join(ast.unparse(node).split())[:100]
    return out, '%s@%d %s: `%s` -> `%s`' % (qualname, line, kind, before, after)


# ---------------------------------------------------------------- runner
def _run_variant(args):
    prop, repo, relfile, new_src, label = args
    from sa import core
    tmp = tempfile.mkdtemp(prefix='verif-sweep-')
    try:
        shutil.copytree(os.path.join(repo, 'mystic'), os.path.join(tmp, 'mystic'), ignore=shutil.ignore_patterns('tests', '__pycache__', '*.pyc'))
        with open(os.path.join(tmp, relfile), 'w', encoding='utf-8') as f:
            f.write(new_src)
        buf = io.StringIO()
        with contextlib.redirect_stdout(buf):
            code, ev = core.run_property(prop, repo=tmp, tier='quick', evidence_dir=os.path.join(tmp, 'ev'), quiet=True)
        out = buf.getvalue()
        rules = sorted(set(l.split(': ', 2)[1].split(' ')[0] for l in out.splitlines() if ': ' + prop + '.' in l[:120] and l.count(': ') >= 2))
        errs = [l[:200] for l in out.splitlines() if l.startswith('ANALYSIS-ERROR')]
        return label, code, rules, errs
    finally:
        shutil.rmtree(tmp, ignore_errors=True)


def analysed(prop, repo):
    """{relfile: [qualnames]} of the functions the property's rules consult on this tree"""
    from sa import core
    buf = io.StringIO()
    with contextlib.redirect_stdout(buf):
        code, ev = core.run_property(prop, repo=repo, tier='quick', evidence_dir=tempfile.gettempdir(), quiet=True)
    files = {}
    if ev:
        for a in ev['coverage']['functions_analysed']:
            mod, _, q = a.partition(':')
            files.setdefault(mod.replace('.', '/') + '.py', []).append(q)
    return code, files


def neutral_sweep(prop, repo='/repo', jobs=16, quiet=False):
    code, files = analysed(prop, repo)
    jobs_ = []
    for rel in sorted(files):
        path = os.path.join(repo, rel)
        if not os.path.exists(path):
            continue
        src = open(path, encoding='utf-8').read()
        for name in NEUTRAL:
            try:
                new = _transform(src, name)
            except Exception as e:     # transformation not applicable to this file
                continue
            jobs_.append((prop, repo, rel, new, '%s:%s' % (name, rel)))
    flagged, undecided, silent = [], [], 0
    with cf.ProcessPoolExecutor(max_workers=jobs) as ex:
        for label, c, rules, errs in ex.map(_run_variant, jobs_):
            if c == 1:
                flagged.append({'variant': label, 'rules': rules})
            elif c == 2:
                undecided.append({'variant': label, 'why': errs[:2]})
            else:
                silent += 1
    if not quiet:
        print('   neutral sweep: %d generated variants, %d silent, %d undecided (ANALYSIS-ERROR), %d FLAGGED' % (len(jobs_), silent, len(undecided), len(flagged)))
        for f in flagged:
            print('   NEUTRAL-FLAGGED %s' % f)
    return {'neutral_generated': len(jobs_), 'neutral_generated_silent': silent, 'neutral_generated_undecided': len(undecided),
            'neutral_generated_flagged': len(flagged), 'neutral_flagged_detail': flagged, 'neutral_undecided_detail': undecided[:20]}


def mutation_sample(prop, repo='/repo', seed=0, n=160, jobs=16, quiet=False):
    code, files = analysed(prop, repo)
    rnd = random.Random(seed)
    cands = []
    for rel, quals in sorted(files.items()):
        path = os.path.join(repo, rel)
        if not os.path.exists(path):
            continue
        src = open(path, encoding='utf-8').read()
        try:
            tree = ast.parse(src)
        except SyntaxError:
            continue
        for q in sorted(set(quals)):
            r = _mutate_file(src, q, 0)
            if r is None:
                continue
            # count sites
            k = 0
            while _mutate_file(src, q, k) is not None and k < 400:
                k += 1
            for i in range(k):
                cands.append((rel, q, i))
    rnd.shuffle(cands)
    picked = cands[:n]
    jobs_ = []
    for rel, q, i in picked:
        src = open(os.path.join(repo, rel), encoding='utf-8').read()
        r = _mutate_file(src, q, i)
        if r is None:
            continue
        jobs_.append((prop, repo, rel, r[0], r[1]))
    killed, survived, undecided = [], [], []
    with cf.ProcessPoolExecutor(max_workers=jobs) as ex:
        for label, c, rules, errs in ex.map(_run_variant, jobs_):
            if c == 1:
                killed.append((label, rules))
            elif c == 2:
                undecided.append(label)
            else:
                survived.append(label)
    if not quiet:
        print('   mutation sample: %d of %d single-node mutants in the analysed functions: %d killed, %d undecided, %d survived' % (
            len(jobs_), len(cands), len(killed), len(undecided), len(survived)))
    return {'mutation_sites': len(cands), 'mutation_sampled': len(jobs_), 'mutation_killed': len(killed), 'mutation_undecided': len(undecided),
            'mutation_survived': len(survived), 'mutation_survivors': survived[:40], 'mutation_killed_examples': [k[0] + ' => ' + ','.join(k[1]) for k in killed[:15]]}


if __name__ == '__main__':
    import sys
    import json
    prop = sys.argv[1]
    what = sys.argv[2] if len(sys.argv) > 2 else 'neutral'
    repo = os.environ.get('VERIF_REPO', '/repo')
    if what == 'neutral':
        r = neutral_sweep(prop, repo)
    else:
        r = mutation_sample(prop, repo, seed=int(os.environ.get('VERIF_SEED') or 0), n=int(sys.argv[3]) if len(sys.argv) > 3 else 160)
    print(json.dumps({k: v for k, v in r.items() if not k.endswith('examples')}, indent=1)[:6000])
