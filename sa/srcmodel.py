"""E0: resolved program model of the repository under analysis.

Parses every module of the ``mystic`` package (tests excluded), links parents,
collects per-module symbol tables, resolves imports (module level and function
local, through re-exports and star imports), builds the class table with a C3
method resolution order, understands private-name mangling and ``property``
declarations.  Anchors are qualified names ``mystic.tools:wrap_bounds.function_wrapper``.
A missing anchor raises AnalysisError (UNDECIDED), never a violation.
"""
import ast
import hashlib
import os


class AnalysisError(Exception):
    """the analysis could not decide (vanished anchor, unknown idiom)"""


def unparse(node):
    try:
        return ast.unparse(node)
    except Exception:  # pragma: no cover
        return ast.dump(node)


def norm_stmt(node):
    """normalised one-line text of a statement (used to key findings)"""
    if isinstance(node, (ast.If, ast.While)):
        return ('if ' if isinstance(node, ast.If) else 'while ') + unparse(node.test)
    if isinstance(node, ast.For):
        return 'for %s in %s' % (unparse(node.target), unparse(node.iter))
    if isinstance(node, (ast.FunctionDef, ast.ClassDef)):
        return 'def ' + node.name
    return ' '.join(unparse(node).split())


class FuncInfo(object):
    def __init__(self, module, qualname, node, cls=None, parent=None):
        self.module = module
        self.qualname = qualname
        self.node = node
        self.cls = cls          # ClassInfo for methods
        self.parent = parent    # enclosing FuncInfo for nested functions
        self.name = node.name if hasattr(node, 'name') else '<lambda>'

    @property
    def anchor(self):
        return '%s:%s' % (self.module.name, self.qualname)

    @property
    def file(self):
        return self.module.relpath

    @property
    def line(self):
        return self.node.lineno

    def args(self):
        a = self.node.args
        return [x.arg for x in a.posonlyargs + a.args]

    def digest(self):
        return hashlib.sha1(ast.dump(self.node).encode()).hexdigest()[:12]

    def __repr__(self):
        return '<func %s>' % self.anchor


class ClassInfo(object):
    def __init__(self, module, name, node):
        self.module = module
        self.name = name
        self.node = node
        self.methods = {}
        self.props = {}      # name -> (getter FuncInfo|None, setter FuncInfo|None)
        self.base_exprs = list(node.bases)
        self.bases = []      # resolved ClassInfo (unresolvable ones dropped)
        self.class_attrs = {}  # name -> value node

    @property
    def anchor(self):
        return '%s:%s' % (self.module.name, self.name)

    def __repr__(self):
        return '<class %s>' % self.anchor


class ModuleInfo(object):
    def __init__(self, name, path, relpath, src):
        self.name = name
        self.path = path
        self.relpath = relpath
        self.src = src
        self.tree = ast.parse(src, filename=path)
        from .normalize import normalize_tree
        normalize_tree(self.tree)     # behaviour-preserving normal form (single-use temporaries, dead locals, spelled-out augmented assignments)
        self.funcs = {}
        self.classes = {}
        self.imports = {}      # local name -> ('module', modname) | ('symbol', modname, name)
        self.star_imports = []  # modnames
        self.assigns = {}      # module-level name -> value node (last one)
        self.is_package = os.path.basename(path) == '__init__.py'
        for n in ast.walk(self.tree):
            for c in ast.iter_child_nodes(n):
                c._parent = n
        self.tree._parent = None
        self._index()

    # -- indexing --------------------------------------------------------
    def _pkg(self):
        return self.name if self.is_package else self.name.rpartition('.')[0]

    def _abs_from(self, node):
        if node.level == 0:
            return node.module
        base = self._pkg().split('.')
        if node.level > 1:
            base = base[:-(node.level - 1)]
        base = '.'.join(base)
        return base + ('.' + node.module if node.module else '')

    def import_bindings(self, node):
        """bindings {name: target} introduced by one Import/ImportFrom node"""
        out = {}
        if isinstance(node, ast.Import):
            for a in node.names:
                if a.asname:
                    out[a.asname] = ('module', a.name)
                else:
                    top = a.name.split('.')[0]
                    out[top] = ('module', top)
        elif isinstance(node, ast.ImportFrom):
            mod = self._abs_from(node)
            for a in node.names:
                if a.name == '*':
                    out.setdefault('*', []).append(mod)
                else:
                    out[a.asname or a.name] = ('symbol', mod, a.name)
        return out

    def _index(self):
        def visit_body(body, prefix, cls, parentf):
            for st in body:
                if isinstance(st, (ast.FunctionDef, ast.AsyncFunctionDef)):
                    q = prefix + st.name
                    fi = FuncInfo(self, q, st, cls=cls if parentf is None else None, parent=parentf)
                    if cls is not None and parentf is None:
                        cls.methods[st.name] = fi
                    self.funcs[q] = fi
                    st._finfo = fi
                    visit_nested(st, q + '.', fi)
                elif isinstance(st, ast.ClassDef) and parentf is None and cls is None:
                    ci = ClassInfo(self, st.name, st)
                    self.classes[st.name] = ci
                    st._cinfo = ci
                    visit_body(st.body, st.name + '.', ci, None)
                    for b in st.body:
                        if isinstance(b, ast.Assign) and len(b.targets) == 1 and isinstance(b.targets[0], ast.Name):
                            ci.class_attrs[b.targets[0].id] = b.value
                            v = b.value
                            if isinstance(v, ast.Call) and isinstance(v.func, ast.Name) and v.func.id == 'property':
                                g = s = None
                                if len(v.args) > 0 and isinstance(v.args[0], ast.Name):
                                    g = ci.methods.get(v.args[0].id)
                                if len(v.args) > 1 and isinstance(v.args[1], ast.Name):
                                    s = ci.methods.get(v.args[1].id)
                                ci.props[b.targets[0].id] = (g, s)

        def visit_nested(fnode, prefix, finfo):
            # nested function definitions anywhere inside fnode (not crossing defs)
            stack = list(fnode.body)
            while stack:
                st = stack.pop(0)
                if isinstance(st, (ast.FunctionDef, ast.AsyncFunctionDef)):
                    q = prefix + st.name
                    k = 2
                    while q in self.funcs:   # same nested name defined twice (if/else)
                        q = prefix + st.name + '#%d' % k
                        k += 1
                    fi = FuncInfo(self, q, st, cls=None, parent=finfo)
                    self.funcs[q] = fi
                    st._finfo = fi
                    visit_nested(st, q + '.', fi)
                elif isinstance(st, ast.ClassDef):
                    continue
                else:
                    for c in ast.iter_child_nodes(st):
                        if isinstance(c, (ast.stmt, ast.ExceptHandler, ast.match_case)):
                            stack.append(c)

        visit_body(self.tree.body, '', None, None)
        for st in self.tree.body:
            self._index_toplevel(st)

    def _index_toplevel(self, st):
        if isinstance(st, (ast.Import, ast.ImportFrom)):
            b = self.import_bindings(st)
            for m in b.pop('*', []):
                self.star_imports.append(m)
            self.imports.update(b)
        elif isinstance(st, ast.Assign):
            for t in st.targets:
                if isinstance(t, ast.Name):
                    self.assigns[t.id] = st.value
        elif isinstance(st, (ast.If, ast.Try)):
            for sub in ast.iter_child_nodes(st):
                if isinstance(sub, ast.stmt):
                    self._index_toplevel(sub)
                elif isinstance(sub, ast.ExceptHandler):
                    for s2 in sub.body:
                        self._index_toplevel(s2)


CURRENT_MODEL = [None]     # the model being analysed (lets the summary engine resolve helpers of the package)


class Model(object):
    def __init__(self, repo, package='mystic'):
        CURRENT_MODEL[0] = self
        self.repo = os.path.abspath(repo)
        self.package = package
        self.modules = {}
        self.errors = []
        root = os.path.join(self.repo, package)
        if not os.path.isdir(root):
            raise AnalysisError('package directory %s not found' % root)
        for dp, dns, fns in os.walk(root):
            dns[:] = sorted(d for d in dns if d not in ('tests', '__pycache__'))
            for fn in sorted(fns):
                if not fn.endswith('.py'):
                    continue
                path = os.path.join(dp, fn)
                rel = os.path.relpath(path, self.repo)
                mod = rel[:-3].replace(os.sep, '.')
                if mod.endswith('.__init__'):
                    mod = mod[:-9]
                try:
                    with open(path, encoding='utf-8') as f:
                        src = f.read()
                    self.modules[mod] = ModuleInfo(mod, path, rel, src)
                except SyntaxError as e:
                    raise AnalysisError('cannot parse %s: %s' % (rel, e))
        self._resolve_classes()
        self.consulted = {}

    # -- anchors ---------------------------------------------------------
    def module(self, name):
        m = self.modules.get(name)
        if m is None:
            raise AnalysisError('anchor vanished: module %s' % name)
        return m

    def func(self, anchor):
        mod, _, q = anchor.partition(':')
        m = self.module(mod)
        f = m.funcs.get(q)
        if f is None:
            # a method inherited / re-exported function?
            if '.' not in q:
                r = self.resolve_global(m, q)
                if r and r[0] == 'func':
                    f = r[1]
        if f is None and '.' in q:
            # `name = lambda args: expr` inside the parent function is the nested function `def name(args): return expr`
            pq, _, name = q.rpartition('.')
            pf = m.funcs.get(pq)
            if pf is not None:
                for st in walk_no_nested(pf.node, include_lambda=False):
                    if isinstance(st, ast.Assign) and len(st.targets) == 1 and isinstance(st.targets[0], ast.Name) and st.targets[0].id == name.split('#')[0] \
                            and isinstance(st.value, ast.Lambda):
                        node = ast.FunctionDef(name=name.split('#')[0], args=st.value.args, body=[ast.copy_location(ast.Return(value=st.value.body), st.value)],
                                               decorator_list=[], returns=None, type_comment=None)
                        ast.copy_location(node, st)
                        node.end_lineno = getattr(st, 'end_lineno', st.lineno)
                        node._parent = getattr(st, '_parent', None)
                        for n in ast.walk(node):
                            for c in ast.iter_child_nodes(n):
                                if not hasattr(c, '_parent') or c is node.body[0]:
                                    c._parent = n
                        f = FuncInfo(m, q, node, cls=None, parent=pf)
                        m.funcs[q] = f
                        break
        if f is None:
            raise AnalysisError('anchor vanished: function %s' % anchor)
        self.consulted[f.anchor] = f
        return f

    def has_func(self, anchor):
        try:
            self.func(anchor)
            return True
        except AnalysisError:
            return False

    def cls(self, anchor):
        mod, _, q = anchor.partition(':')
        m = self.module(mod)
        c = m.classes.get(q)
        if c is None:
            r = self.resolve_global(m, q)
            if r and r[0] == 'class':
                c = r[1]
        if c is None:
            raise AnalysisError('anchor vanished: class %s' % anchor)
        return c

    # -- name resolution -------------------------------------------------
    def resolve_global(self, module, name, _seen=None):
        """resolve a module-level name to ('func',FuncInfo) | ('class',ClassInfo)
        | ('module',modname) | ('extern', dotted) | ('value', node) | None"""
        _seen = _seen or set()
        key = (module.name, name)
        if key in _seen:
            return None
        _seen.add(key)
        if name in module.funcs and '.' not in name:
            return ('func', module.funcs[name])
        if name in module.classes:
            return ('class', module.classes[name])
        if name in module.imports:
            return self._resolve_import(module.imports[name], _seen)
        if name in module.assigns:
            v = module.assigns[name]
            if isinstance(v, ast.Name) and v.id != name:
                r = self.resolve_global(module, v.id, _seen)
                if r:
                    return r
            return ('value', v)
        for sm in module.star_imports:
            if sm in self.modules:
                r = self.resolve_global(self.modules[sm], name, _seen)
                if r:
                    return r
        return None

    def _resolve_import(self, target, _seen=None):
        if target[0] == 'module':
            return ('module', target[1])
        _, mod, sym = target
        if mod in self.modules:
            r = self.resolve_global(self.modules[mod], sym, _seen)
            if r:
                return r
            sub = mod + '.' + sym
            if sub in self.modules:
                return ('module', sub)
            return None
        return ('extern', mod + '.' + sym)

    def local_imports(self, finfo):
        """import bindings made inside a function body (and its enclosing functions)"""
        out = {}
        chain = []
        f = finfo
        while f is not None:
            chain.append(f)
            f = f.parent
        for f in reversed(chain):
            for n in ast.walk(f.node):
                if isinstance(n, (ast.Import, ast.ImportFrom)):
                    b = f.module.import_bindings(n)
                    b.pop('*', None)
                    out.update(b)
        return out

    def resolve_in_func(self, finfo, name):
        """resolve a bare name used inside finfo (local imports, nested defs, globals)"""
        li = self.local_imports(finfo)
        if name in li:
            return self._resolve_import(li[name])
        f = finfo
        while f is not None:
            q = f.qualname + '.' + name
            if q in f.module.funcs:
                return ('func', f.module.funcs[q])
            f = f.parent
        return self.resolve_global(finfo.module, name)

    def resolve_dotted(self, finfo, node):
        """resolve Name / Attribute chains rooted at a module alias"""
        if isinstance(node, ast.Name):
            return self.resolve_in_func(finfo, node.id) if finfo else None
        if isinstance(node, ast.Attribute):
            base = self.resolve_dotted(finfo, node.value)
            if base is None:
                return None
            if base[0] == 'module':
                mod = base[1]
                if mod in self.modules:
                    r = self.resolve_global(self.modules[mod], node.attr)
                    if r:
                        return r
                    if mod + '.' + node.attr in self.modules:
                        return ('module', mod + '.' + node.attr)
                    return None
                return ('extern', mod + '.' + node.attr)
            if base[0] == 'extern':
                return ('extern', base[1] + '.' + node.attr)
            if base[0] == 'class':
                m = self.lookup_method(base[1], node.attr)
                if m:
                    return ('func', m)
        return None

    # -- classes ---------------------------------------------------------
    def _resolve_classes(self):
        for m in self.modules.values():
            for c in m.classes.values():
                for b in c.base_exprs:
                    r = None
                    if isinstance(b, ast.Name):
                        r = self.resolve_global(m, b.id)
                    elif isinstance(b, ast.Attribute):
                        r = self._resolve_attr_global(m, b)
                    if r and r[0] == 'class':
                        c.bases.append(r[1])

    def _resolve_attr_global(self, m, node):
        if isinstance(node, ast.Name):
            return self.resolve_global(m, node.id)
        if isinstance(node, ast.Attribute):
            base = self._resolve_attr_global(m, node.value)
            if base and base[0] == 'module' and base[1] in self.modules:
                return self.resolve_global(self.modules[base[1]], node.attr)
        return None

    def mro(self, c):
        # C3 linearisation
        def merge(seqs):
            res = []
            seqs = [list(s) for s in seqs if s]
            while seqs:
                for s in seqs:
                    cand = s[0]
                    if not any(cand in t[1:] for t in seqs):
                        break
                else:
                    raise AnalysisError('inconsistent MRO for %s' % c.name)
                res.append(cand)
                seqs = [[x for x in s if x is not cand] for s in seqs]
                seqs = [s for s in seqs if s]
            return res
        return [c] + merge([self.mro(b) for b in c.bases] + [list(c.bases)])

    def all_classes(self):
        for m in self.modules.values():
            for c in m.classes.values():
                yield c

    def subclasses(self, c, strict=False):
        out = []
        for k in self.all_classes():
            if k is c and strict:
                continue
            if c in self.mro(k):
                out.append(k)
        return out

    def lookup_method(self, c, name, from_cls=None):
        """method `name` as seen on an instance of class c (MRO order, name mangling)"""
        mro = self.mro(c)
        if name.startswith('__') and not name.endswith('__') and from_cls is not None:
            return from_cls.methods.get(name)
        if name.startswith('_') and '__' in name[1:] and not name.startswith('__'):
            owner, _, rest = name[1:].partition('__')
            for k in mro:
                if k.name == owner and ('__' + rest) in k.methods:
                    return k.methods['__' + rest]
        for k in mro:
            if name in k.methods:
                return k.methods[name]
        return None

    def lookup_prop(self, c, name):
        for k in self.mro(c):
            if name in k.props:
                return k.props[name]
            if name in k.methods or name in k.class_attrs:
                return None
        return None

    def overriders(self, c, name):
        """every implementation of method `name` in c's subclasses and c's MRO"""
        seen, out = set(), []
        for k in self.subclasses(c):
            f = self.lookup_method(k, name)
            if f is not None and id(f) not in seen:
                seen.add(id(f))
                out.append(f)
        return out

    def enclosing_class(self, finfo):
        f = finfo
        while f is not None:
            if f.cls is not None:
                return f.cls
            f = f.parent
        return None


def parent(node):
    return getattr(node, '_parent', None)


def enclosing_stmt(node):
    n = node
    while n is not None and not isinstance(n, ast.stmt):
        n = parent(n)
    return n


def ancestors(node):
    n = parent(node)
    while n is not None:
        yield n
        n = parent(n)


def const_truth(test):
    """True/False for a compile-time constant test (``if False:``), else None"""
    if isinstance(test, ast.Constant) and isinstance(test.value, (bool, int, type(None), str)):
        return bool(test.value)
    return None


def walk_no_nested(node, include_lambda=True, prune_dead=True):
    """walk a function body without descending into nested defs/classes;
    statically dead branches (``if False:``) are skipped"""
    stack = list(ast.iter_child_nodes(node))
    while stack:
        n = stack.pop()
        yield n
        if isinstance(n, (ast.FunctionDef, ast.AsyncFunctionDef, ast.ClassDef)):
            continue
        if isinstance(n, ast.Lambda) and not include_lambda:
            continue
        if prune_dead and isinstance(n, ast.If):
            tv = const_truth(n.test)
            if tv is True:
                stack.extend(n.body)
                continue
            if tv is False:
                stack.extend(n.orelse)
                continue
        stack.extend(ast.iter_child_nodes(n))


def attr_chain(node):
    """'self._stepmon._y' for Attribute/Name chains, else None"""
    parts = []
    while isinstance(node, ast.Attribute):
        parts.append(node.attr)
        node = node.value
    if isinstance(node, ast.Name):
        parts.append(node.id)
        return '.'.join(reversed(parts))
    return None


def mangle(clsname, attr):
    if attr.startswith('__') and not attr.endswith('__'):
        return '_%s%s' % (clsname.lstrip('_'), attr)
    return attr
