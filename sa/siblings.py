"""E8: behavioural summary of a function, for sibling / reference agreement.

summary(fnode) = set of (path literals, effects, outcome) where every
expression is a canonical term after forward substitution of plain locals
(temporaries, renamed locals and algebraic regrouping vanish), effects are the
stores and calls that are not plain-local bookkeeping, and the outcome is the
returned term / 'raise'.  Two functions agree when their summaries are equal
modulo a declared renaming.  Loops are unrolled 0, 1 and 2 times.
"""
import ast

from .srcmodel import AnalysisError, unparse
from .paths import enumerate_paths
from . import terms as T


LOGGING_CALLS = ('print', 'warnings.warn', 'warn', 'sys.stdout.write', 'sys.stderr.write')


def _is_plain_local_store(st, locals_ok):
    if isinstance(st, ast.Assign):
        return all(isinstance(t, ast.Name) or (isinstance(t, (ast.Tuple, ast.List)) and all(isinstance(e, ast.Name) for e in t.elts))
                   for t in st.targets)
    if isinstance(st, ast.AugAssign):
        return isinstance(st.target, ast.Name)
    return False


def _tracked(st, b, track_calls):
    out = []
    if not track_calls:
        return out
    for n in ast.walk(st):
        if isinstance(n, (ast.FunctionDef, ast.Lambda)):
            continue
        if isinstance(n, ast.Call) and isinstance(n.func, ast.Name):
            name = b.name_map.get(n.func.id, n.func.id)
            if name in track_calls:
                out.append(('eval', name, tuple(T.simp(b.t(a)) for a in n.args)))
    return out


def block(stmts, name='block'):
    """wrap a statement list as a function so it can be summarised"""
    return ast.FunctionDef(name=name, args=ast.arguments(posonlyargs=[], args=[], kwonlyargs=[], kw_defaults=[], defaults=[]),
                           body=list(stmts), decorator_list=[], lineno=getattr(stmts[0], 'lineno', 0), col_offset=0)


def _const_truth(t_):
    if isinstance(t_, tuple) and t_:
        if t_[0] == 'const' and (isinstance(t_[1], bool) or t_[1] is None):
            return bool(t_[1])
        c = T.poly_const(t_)
        if c is not None:
            return c != 0
    return None


def _lit(c, tr):
    while isinstance(c, tuple) and c and c[0] == 'not':
        c, tr = c[1], not tr
    if isinstance(c, tuple) and c and c[0] == 'cmp' and c[1] in ('isnot', '!='):
        c, tr = ('cmp', {'isnot': 'is', '!=': '=='}[c[1]]) + c[2:], not tr
    return ('T' if tr else 'F', c)


class Inline(object):
    """which calls a summary may look through: callees that resolve (from `finfo`) to functions of the analysed package, that
    the reference being compared with does not itself mention (`known` names stay opaque on both sides), up to `depth` levels.
    This is what lets a rule see through an extracted private helper or nested function."""

    def __init__(self, model, finfo, known=(), depth=2):
        self.model, self.finfo, self.known, self.depth = model, finfo, set(known), depth

    def target(self, call):
        if self.depth <= 0 or not isinstance(call, ast.Call) or not isinstance(call.func, ast.Name):
            return None
        name = call.func.id
        if name in self.known or any(isinstance(a, ast.Starred) for a in call.args) or any(k.arg is None for k in call.keywords):
            return None
        r = self.model.resolve_in_func(self.finfo, name)
        if not r or r[0] != 'func':
            return None
        g = r[1]
        a = g.node.args
        if g.cls is not None or a.vararg or a.kwarg or a.kwonlyargs or g is self.finfo:
            return None
        if any(isinstance(n, (ast.Yield, ast.YieldFrom)) for n in ast.walk(g.node)):
            return None
        return g

    def bind(self, g, call, b):
        a = g.node.args
        params = [x.arg for x in a.posonlyargs + a.args]
        if len(call.args) > len(params):
            return None
        env = {}
        for p_, arg in zip(params, call.args):
            env[p_] = T.simp(b.t(arg))
        for k in call.keywords:
            if k.arg not in params or k.arg in env:
                return None
            env[k.arg] = T.simp(b.t(k.value))
        for p_, d in zip(params[len(params) - len(a.defaults):], a.defaults):
            env.setdefault(p_, T.term(d))
        if set(params) - set(env):
            return None
        return env

    def deeper(self, g):
        return Inline(self.model, g, self.known, self.depth - 1)


def summary(fnode, name_map=None, call_alias=None, unroll=(0, 1, 2), ignore_calls=(), env=None, drop_doc=True, track_calls=(), strict_casts=False, inline=None):
    paths = enumerate_paths(fnode, unroll=unroll)
    out = set()
    # bare expression statements inside a try body with handlers are probes (`-x` raising TypeError selects the handler)
    guarded = set()
    for tr in ast.walk(fnode):
        if isinstance(tr, ast.Try) and tr.handlers:
            for st0 in tr.body:
                for n in ast.walk(st0):
                    if isinstance(n, ast.Expr):
                        guarded.add(id(n))
    hcache = {}

    def helper_items(call, b):
        """summary items of an inlinable callee with its parameters bound to the argument terms, or None"""
        if inline is None:
            return None
        g = inline.target(call)
        if g is None:
            return None
        henv = inline.bind(g, call, b)
        if henv is None:
            return None
        key = (g.anchor, tuple(sorted((k, repr(v)) for k, v in henv.items())))
        if key not in hcache:
            try:
                hcache[key] = summary(g.node, name_map=name_map, call_alias=call_alias, unroll=unroll, ignore_calls=ignore_calls, env=henv,
                                      track_calls=track_calls, strict_casts=strict_casts, inline=inline.deeper(g))
            except (AnalysisError, RecursionError):
                hcache[key] = None
        items = hcache[key]
        if items is None or len(items) > 24:
            return None
        return sorted(items, key=repr)

    def _canon(lits):
        # the order in which independent tests are made is not behaviour: each maximal run of plain condition literals (between loop /
        # iteration markers) is compared as a set (`if a is None: a = 1` / `if b is None: b = 1` in either order)
        res, run = [], []
        for x in lits:
            if isinstance(x, tuple) and x and x[0] in ('T', 'F'):
                run.append(x)
            else:
                res.extend(sorted(set(run), key=repr))
                run = []
                res.append(x)
        res.extend(sorted(set(run), key=repr))
        return tuple(res)

    def finish(p, lits, effects, outcome):
        lits = _canon(lits)
        if outcome is None:
            outcome = ('return', ('const', None)) if p.exit in ('fall', 'return') else (p.exit,)
        # a conditional expression in the returned value is a branch: `return a if c else b` == `if c: return a` / `return b`
        if outcome[0] == 'return' and isinstance(outcome[1], tuple) and T.find_free_ifexp(outcome[1]) is not None:
            try:
                split = T.free_cases(outcome[1], limit=32)
            except AnalysisError:
                split = [((), outcome[1])]
            for cl, leaf in split:
                out.add((_canon(tuple(lits) + tuple(_lit(c, tr) for c, tr in cl)), tuple(effects), ('return', leaf)))
            return
        out.add((tuple(lits), tuple(effects), outcome))

    def walk(p, i, b, lits, effects):
        events = p.events
        outcome = None
        while i < len(events):
            e = events[i]
            i += 1
            if e[0] == 'cond':
                tt = T.simp(b.t(e[1]))
                truth = e[2]
                while isinstance(tt, tuple) and tt and tt[0] == 'not':     # `if not c:` taken  ==  `if c:` not taken
                    tt, truth = tt[1], not truth
                if isinstance(tt, tuple) and tt and tt[0] == 'cmp' and tt[1] in ('isnot', '!='):    # a is not b  ==  not (a is b)
                    tt, truth = ('cmp', {'isnot': 'is', '!=': '=='}[tt[1]]) + tt[2:], not truth
                # a test on a known constant (flag variables: doshrink = 0 / 1 / False / True) is decided: the other branch is
                # infeasible, and the literal carries no information
                cv = _const_truth(tt)
                if cv is not None:
                    if cv != truth:
                        return
                    continue
                lits.append(('T' if truth else 'F', tt))
            elif e[0] == 'iter':
                loop = e[1]
                if isinstance(loop, ast.For):
                    it = T.simp(b.t(loop.iter))
                    lits.append(('iter', it, e[2]))
                    # loop variable: the k-th element of the iterable
                    if isinstance(loop.target, ast.Name):
                        b.env[loop.target.id] = ('elem', it, e[2])
                    elif isinstance(loop.target, (ast.Tuple, ast.List)):
                        b.assign(loop.target, ('elem', it, e[2]))     # for (a, b) in X: a, b are the components of the k-th element
            elif e[0] == 'loopdone':
                lits.append(('done', e[1].lineno * 0))
            elif e[0] == 'except':
                h = e[1]
                lits.append(('except', unparse(h.type) if h.type is not None else '*'))
            elif e[0] == 'partial':
                pass
            elif e[0] == 'stmt':
                st = e[1]
                if isinstance(st, ast.Expr) and isinstance(st.value, ast.Constant):
                    continue   # docstring
                # a call to a helper of the analysed package that is the whole right-hand side / returned value / statement is
                # looked through: the path forks over the helper's own paths
                hcall = None
                if isinstance(st, (ast.Return, ast.Expr)) and isinstance(st.value, ast.Call):
                    hcall = st.value
                elif isinstance(st, ast.Assign) and len(st.targets) == 1 and isinstance(st.value, ast.Call) and _is_plain_local_store(st, None):
                    hcall = st.value
                items = helper_items(hcall, b) if hcall is not None else None
                if items is not None:
                    for hl, he, ho in items:
                        b2 = b.copy()
                        l2, e2 = list(lits) + list(hl), list(effects) + list(he)
                        if ho[0] != 'return':
                            finish(p, l2, e2, ho)        # the helper raises: so does the caller
                            continue
                        if isinstance(st, ast.Return):
                            finish(p, l2, e2, ('return', ho[1]))
                            continue
                        if isinstance(st, ast.Assign):
                            b2.assign(st.targets[0], ho[1])
                        walk(p, i, b2, l2, e2)
                    return
                effects.extend(_tracked(st, b, track_calls))
                if isinstance(st, ast.Return):
                    outcome = ('return', T.simp(b.t(st.value)) if st.value is not None else ('const', None))
                elif isinstance(st, ast.Raise):
                    outcome = ('raise', unparse(st.exc).split('(')[0] if st.exc is not None else '')
                elif _is_plain_local_store(st, None):
                    b.exec_stmt(st)
                elif isinstance(st, (ast.Assign, ast.AugAssign)):
                    tg = st.targets[0] if isinstance(st, ast.Assign) else st.target
                    val = T.simp(b.t(st.value))
                    op = type(st.op).__name__ if isinstance(st, ast.AugAssign) else '='
                    effects.append(('store', T.simp(b.t(tg)) if not isinstance(tg, ast.Name) else ('name', tg.id), op, val))
                elif isinstance(st, ast.Expr):
                    v = T.simp(b.t(st.value))
                    if v[0] == 'call' and (T.show(v[1]) in ignore_calls or T.show(v[1]) in LOGGING_CALLS or T.show(v[1]).startswith(('logging.', 'log.', 'logger.'))):
                        continue     # diagnostics are not behaviour
                    if v[0] != 'call' and not isinstance(st.value, (ast.ListComp, ast.Await, ast.Yield)):
                        if id(st) in guarded:
                            effects.append(('probe', v))     # can raise into a handler: part of the behaviour
                        continue     # otherwise a bare expression statement has no effect
                    # d.update({k: v}) with one literal pair is the item store d[k] = v
                    if v[0] == 'call' and isinstance(v[1], tuple) and v[1][0] == 'attr' and v[1][2] == 'update' and len(v[2]) == 1 and not v[3] and \
                            isinstance(v[2][0], tuple) and v[2][0][:1] == ('dict',) and len(v[2][0]) == 2 and v[2][0][1][0] is not None:
                        k_, val_ = v[2][0][1]
                        effects.append(('store', ('sub', v[1][1], k_), '=', val_))
                        continue
                    effects.append(('do', v))
                elif isinstance(st, ast.FunctionDef):
                    b.exec_stmt(st)      # one-expression nested functions are bound like lambdas
                    continue
                elif isinstance(st, (ast.Import, ast.ImportFrom, ast.Pass, ast.Global, ast.Nonlocal, ast.ClassDef)):
                    continue
                elif isinstance(st, ast.Delete):
                    effects.append(('del', tuple(T.simp(b.t(x)) for x in st.targets)))
                elif isinstance(st, ast.Assert):
                    effects.append(('assert', T.simp(b.t(st.test))))
                else:
                    effects.append(('stmt', unparse(st)))
        finish(p, lits, effects, outcome)

    def on_call(ctext, args, kws, node, builder):
        # a call, anywhere in an expression, to a one-expression helper of the package is the expression itself
        if inline is None:
            return None
        g = inline.target(node)
        if g is None:
            return None
        body = [x for x in g.node.body if not (isinstance(x, ast.Expr) and isinstance(x.value, ast.Constant))]
        if len(body) != 1 or not isinstance(body[0], ast.Return) or body[0].value is None:
            return None
        henv = inline.bind(g, node, builder)
        if henv is None:
            return None
        hb = T.Builder(env=henv, name_map=name_map, call_alias=call_alias)
        hb.strict_casts = strict_casts
        hb._depth = builder._depth + 8        # keep bound-variable numbering apart
        return T.simp(hb.t(body[0].value))

    for p in paths:
        b = T.Builder(env=env, name_map=name_map, call_alias=call_alias, on_call=on_call if inline is not None else None)
        b.strict_casts = strict_casts
        walk(p, 0, b, [], [])
    return out


def summary_of_source(src, **kw):
    from .normalize import normalize_tree
    node = normalize_tree(ast.parse(src)).body[0]     # the same normal form as the analysed program
    return summary(node, **kw)


def agree(fnode, src, **kw):
    """(summary of the analysed function, summary of the reference source).  The analysed side may look through helpers of the
    package that the reference does not mention (an extracted private function, a nested def), so that a refactoring which
    only moves code into such a helper compares equal."""
    from .srcmodel import CURRENT_MODEL
    from .normalize import normalize_tree
    # positional parameters are compared by position, not by name (a renamed parameter of a private closure is the same function)
    rnode = normalize_tree(ast.parse(src)).body[0]
    if isinstance(rnode, ast.FunctionDef) and isinstance(fnode, ast.FunctionDef) and 'env' not in kw:
        pa = [a.arg for a in fnode.args.posonlyargs + fnode.args.args]
        pb = [a.arg for a in rnode.args.posonlyargs + rnode.args.args]
        if len(pa) == len(pb) and pa != pb:
            known = set(n.id for n in ast.walk(rnode) if isinstance(n, ast.Name))
            fi = getattr(fnode, '_finfo', None)
            inl = Inline(CURRENT_MODEL[0], fi, known) if (fi is not None and CURRENT_MODEL[0] is not None) else None
            ea = dict((p_, ('name', '@p%d' % k)) for k, p_ in enumerate(pa))
            eb = dict((p_, ('name', '@p%d' % k)) for k, p_ in enumerate(pb))
            return summary(fnode, inline=inl, env=ea, **kw), summary(rnode, env=eb, **kw)
    want = summary_of_source(src, **kw)
    known = set(n.id for n in ast.walk(ast.parse(src)) if isinstance(n, ast.Name))
    fi = getattr(fnode, '_finfo', None)
    inl = Inline(CURRENT_MODEL[0], fi, known) if (fi is not None and CURRENT_MODEL[0] is not None) else None
    got = summary(fnode, inline=inl, **kw)
    return got, want


def diff(a, b, limit=2):
    """human-readable difference between two summaries"""
    only_a = sorted(a - b, key=repr)[:limit]
    only_b = sorted(b - a, key=repr)[:limit]

    def show(item):
        lits, eff, outc = item
        ls = ' & '.join('%s:%s' % (x[0], T.show(x[1])[:50]) if len(x) > 1 and isinstance(x[1], tuple) else str(x) for x in lits)
        es = '; '.join(T.show(e[-1])[:60] if isinstance(e[-1], tuple) else str(e) for e in eff)
        o = outc[0] + (' ' + T.show(outc[1])[:120] if len(outc) > 1 and isinstance(outc[1], tuple) else ' ' + str(outc[1:]))
        return '[%s] {%s} -> %s' % (ls, es, o)
    return 'only in code: %s | only in reference: %s' % ([show(x) for x in only_a], [show(x) for x in only_b])
