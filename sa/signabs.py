"""E5: sign domain over canonical terms.

Abstract values: 'neg', 'zero', 'pos', 'nonneg', 'nonpos', 'any', 'posinf'.
eval_sign(term, env) evaluates a canonical term (sa.terms) given the signs of
its atoms (env: term -> sign); polynomial arithmetic, max/min/abs, integer
powers, conditional expressions whose tests are sign tests of atoms.
"""
from fractions import Fraction

from . import terms as T

NEG, ZERO, POS, NONNEG, NONPOS, ANY, INF = 'neg', 'zero', 'pos', 'nonneg', 'nonpos', 'any', 'posinf'


def _neg(s):
    return {NEG: POS, POS: NEG, ZERO: ZERO, NONNEG: NONPOS, NONPOS: NONNEG, ANY: ANY, INF: NEG}[s]


def _mul(a, b):
    if ZERO in (a, b):
        return ZERO
    if ANY in (a, b):
        return ANY
    if a == INF:
        a = POS
    if b == INF:
        b = POS
    tbl = {(POS, POS): POS, (POS, NEG): NEG, (NEG, POS): NEG, (NEG, NEG): POS}
    if (a, b) in tbl:
        return tbl[(a, b)]
    # at least one weak sign
    sa = {POS: 1, NONNEG: 1, NEG: -1, NONPOS: -1}[a]
    sb = {POS: 1, NONNEG: 1, NEG: -1, NONPOS: -1}[b]
    return NONNEG if sa * sb > 0 else NONPOS


def _add(a, b):
    if a == ZERO:
        return b
    if b == ZERO:
        return a
    if INF in (a, b):
        return INF if NEG not in (a, b) and NONPOS not in (a, b) and ANY not in (a, b) else ANY
    if a == b:
        return a
    if {a, b} == {POS, NONNEG}:
        return POS
    if {a, b} == {NEG, NONPOS}:
        return NEG
    return ANY


def _pow(s, e):
    e = Fraction(e)
    if e == 0:
        return POS
    if e.denominator == 1 and int(e) % 2 == 0:
        if e > 0:
            return {NEG: POS, POS: POS, ZERO: ZERO, NONNEG: NONNEG, NONPOS: NONNEG, ANY: NONNEG, INF: INF}[s]
        return {NEG: POS, POS: POS}.get(s, ANY)
    if e.denominator == 1:
        if e > 0:
            return s
        return s if s in (POS, NEG) else ANY
    return s if s in (POS, ZERO, NONNEG) and e > 0 else (POS if s == POS else ANY)


def eval_sign(t, env, truth=None):
    """truth: dict condition-term -> bool for conditional expressions"""
    truth = truth or {}
    if t in env:
        return env[t]
    if T.is_poly(t):
        total = ZERO
        for m, c in t[1]:
            s = POS if c > 0 else NEG
            for a, e in m:
                s = _mul(s, _pow(eval_sign(a, env, truth), e))
            total = _add(total, s)
        return total
    k = t[0]
    if k == 'const':
        if t[1] in ('inf',):
            return INF
        if isinstance(t[1], bool):
            return POS if t[1] else ZERO
        return ANY
    if k == 'name' and t[1] == 'inf':
        return INF
    if k == 'call':
        f = T.show(t[1])
        args = t[2]
        if f == 'abs' and len(args) == 1:
            s = eval_sign(args[0], env, truth)
            return {NEG: POS, POS: POS, ZERO: ZERO, NONNEG: NONNEG, NONPOS: NONNEG, ANY: NONNEG, INF: INF}[s]
        if f == 'max' and len(args) == 2:
            a, b = eval_sign(args[0], env, truth), eval_sign(args[1], env, truth)
            if POS in (a, b) or INF in (a, b):
                return POS
            if a == ZERO:
                return {NEG: ZERO, NONPOS: ZERO, ZERO: ZERO, NONNEG: NONNEG, ANY: NONNEG}[b]
            if b == ZERO:
                return {NEG: ZERO, NONPOS: ZERO, ZERO: ZERO, NONNEG: NONNEG, ANY: NONNEG}[a]
            if NONNEG in (a, b):
                return NONNEG
            if a == NEG and b == NEG:
                return NEG
            return ANY
        if f == 'min' and len(args) == 2:
            a, b = eval_sign(args[0], env, truth), eval_sign(args[1], env, truth)
            if NEG in (a, b):
                return NEG
            if a == b:
                return a
            return ANY
        if f == 'pow' and len(args) == 2:
            return POS if eval_sign(args[0], env, truth) == POS else ANY
        return ANY
    if k == 'ifexp':
        c = t[1]
        tv = cond_truth(c, env, truth)
        if tv is True:
            return eval_sign(t[2], env, truth)
        if tv is False:
            return eval_sign(t[3], env, truth)
        a, b = eval_sign(t[2], env, truth), eval_sign(t[3], env, truth)
        return a if a == b else ANY
    return ANY


def cond_truth(c, env, truth=None):
    """truth of a condition term under the sign environment (None = unknown)"""
    truth = truth or {}
    if c in truth:
        return truth[c]
    if c in env or T.is_poly(c) or c[0] in ('name', 'call', 'attr', 'sub'):
        s = eval_sign(c, env, truth)
        if s == ZERO:
            return False
        if s in (POS, NEG, INF):
            return True
        return None
    if c[0] == 'not':
        v = cond_truth(c[1], env, truth)
        return None if v is None else (not v)
    if c[0] == 'cmp':
        op, a, b = c[1], c[2], c[3]
        d = eval_sign(T.padd(a, T.pneg(b)), env, truth)   # sign of a - b
        if op == '<':
            return True if d == NEG else (False if d in (ZERO, POS, NONNEG) else None)
        if op == '<=':
            return True if d in (NEG, ZERO, NONPOS) else (False if d == POS else None)
        if op == '==':
            return True if d == ZERO else (False if d in (POS, NEG) else None)
        if op == '!=':
            return False if d == ZERO else (True if d in (POS, NEG) else None)
    return None
