"""Checker self-validation (thorough tier): mutants must fire, neutral variants must stay silent.

Each case is a source edit (file, old text, new text) applied to a scratch copy
of the repository's ``mystic`` package made in a fresh temporary directory
(outside /repo and /verif, removed immediately).  A *mutant* breaks exactly one
rule instance while still compiling; the named rule must report a violation.
A *neutral* variant changes the text without changing behaviour (renamed local,
temporary introduced, reordered independent statements, added logging); the
checker must stay silent.  An edit whose ``old`` text no longer occurs exactly
``count`` times in the current tree is reported as not-applicable (the tree has
moved on), never as a failure.
"""
import concurrent.futures as cf
import contextlib
import io
import os
import shutil
import tempfile

VERIF = os.path.dirname(os.path.dirname(os.path.abspath(__file__)))


def load_cases(prop):
    import importlib.util
    p = os.path.join(VERIF, 'selftest', 'cases_%s.py' % prop.lower())
    if not os.path.exists(p):
        return []
    spec = importlib.util.spec_from_file_location('cases_' + prop.lower(), p)
    mod = importlib.util.module_from_spec(spec)
    spec.loader.exec_module(mod)
    return list(mod.CASES) + seeded_cases(prop) + neutral_cases(prop)


def neutral_cases(prop):
    """the behaviour-preserving refactorings kept under /verif/neutral (each confirmed: pinned suite 213/213, demo unchanged) that
    this property's check is known to stay silent on: replayed as neutral variants - a rule change that turns one of them into an
    alarm is a regression of the checker"""
    import json
    idx = os.path.join(VERIF, 'neutral', 'PASSING.json')
    if not os.path.exists(idx):
        return []
    try:
        passing = json.load(open(idx)).get('passing', {})
    except ValueError:
        return []
    out = []
    for nid in sorted(passing):
        pp = os.path.join(VERIF, 'neutral', nid, 'patch.diff')
        if prop in passing[nid] and os.path.exists(pp):
            out.append({'id': 'neutral-' + nid, 'patch': pp, 'expect': 'silent'})
    return out


def seeded_cases(prop):
    """the independently seeded changes kept under /verif/seeded that this property's check caught when they were
    collected: each is replayed as a mutant (patch applied to the scratch copy) and must still be caught by one of
    the rules recorded then"""
    import json
    out = []
    root = os.path.join(VERIF, 'seeded')
    if not os.path.isdir(root):
        return out
    for d in sorted(os.listdir(root)):
        mp = os.path.join(root, d, 'meta.json')
        pp = os.path.join(root, d, 'patch.diff')
        if not (os.path.exists(mp) and os.path.exists(pp)):
            continue
        try:
            meta = json.load(open(mp))
        except ValueError:
            continue
        chk = (meta.get('checks') or {}).get(prop)
        if not chk or chk.get('exit') != 1 or not chk.get('rules'):
            continue
        out.append({'id': 'seed-' + d, 'patch': pp, 'expect': list(chk['rules'])})
    return out


def _apply(root, case):
    if case.get('patch'):
        import subprocess
        r = subprocess.run(['patch', '-p1', '-s', '-f', '--no-backup-if-mismatch', '-d', root, '-i', case['patch']], capture_output=True, text=True)
        if r.returncode != 0:
            return 'not-applicable'     # the tree has moved on under the seeded patch
        return None
    edits = case.get('edits') or [(case['file'], case['old'], case['new'])]
    for file, old, new in edits:
        path = os.path.join(root, file)
        if not os.path.exists(path):
            return 'file-missing'
        with open(path, encoding='utf-8') as f:
            src = f.read()
        if src.count(old) != case.get('count', 1):
            return 'not-applicable'
        src = src.replace(old, new)
        try:
            compile(src, path, 'exec')
        except SyntaxError as e:
            return 'does-not-compile: %s' % e
        with open(path, 'w', encoding='utf-8') as f:
            f.write(src)
    return None


def _run_case(args):
    prop, repo, case, base_keys = args
    from sa import core
    tmp = tempfile.mkdtemp(prefix='verif-selftest-')
    try:
        shutil.copytree(os.path.join(repo, 'mystic'), os.path.join(tmp, 'mystic'),
                        ignore=shutil.ignore_patterns('tests', '__pycache__', '*.pyc'))
        why = _apply(tmp, case)
        if why:
            return case['id'], 'skipped', why, []
        buf = io.StringIO()
        with contextlib.redirect_stdout(buf):
            code, ev = core.run_property(prop, repo=tmp, tier='quick', evidence_dir=os.path.join(tmp, 'ev'), quiet=True)
        out = buf.getvalue()
        fired = []
        for line in out.splitlines():
            # diagnostic lines: "<file>:<line>: <rule> <construct>: msg"
            parts = line.split(': ', 2)
            if len(parts) >= 2 and parts[1].split(' ')[0].startswith(prop + '.'):
                fired.append(parts[1].split(' ')[0])
        errors = [l for l in out.splitlines() if l.startswith('ANALYSIS-ERROR')]
        return case['id'], code, '\n'.join(errors), fired
    finally:
        shutil.rmtree(tmp, ignore_errors=True)


def run(prop, repo='/repo', seed=0, quiet=False, jobs=None, only=None):
    cases = load_cases(prop)
    if only:
        cases = [c for c in cases if c['id'] in only]
    if not cases:
        return 0, {'selftest_cases': 0}
    jobs = jobs or min(16, os.cpu_count() or 4)
    results = {}
    with cf.ProcessPoolExecutor(max_workers=jobs) as ex:
        for cid, code, info, fired in ex.map(_run_case, [(prop, repo, c, None) for c in cases]):
            results[cid] = (code, info, fired)
    failed = []
    n_mut = n_neu = n_skip = 0
    detail = []
    for c in cases:
        code, info, fired = results[c['id']]
        exp = c.get('expect', 'silent')
        if code == 'skipped':
            n_skip += 1
            detail.append({'id': c['id'], 'result': 'skipped', 'why': info})
            continue
        if exp == 'silent':
            n_neu += 1
            okc = (code == 0)
            detail.append({'id': c['id'], 'kind': 'neutral', 'result': 'silent' if okc else 'FLAGGED', 'exit': code, 'fired': fired, 'info': info})
        else:
            n_mut += 1
            exps = exp if isinstance(exp, (list, tuple)) else [exp]
            okc = (code == 1) and any(e in fired for e in exps)
            detail.append({'id': c['id'], 'kind': 'mutant', 'result': 'caught' if okc else 'MISSED', 'exit': code,
                           'expected': exps, 'fired': sorted(set(fired)), 'info': info})
        if not okc:
            failed.append(detail[-1])
    if not quiet:
        print('   self-validation: %d mutants, %d neutral variants, %d not applicable, %d failures' % (
            n_mut, n_neu, n_skip, len(failed)))
        for d in failed:
            print('   SELFTEST-FAIL %s' % d)
    extra = {'selftest_cases': len(cases), 'selftest_mutants_caught': n_mut - sum(1 for d in failed if d.get('kind') == 'mutant'),
             'selftest_mutants': n_mut, 'selftest_neutral_silent': n_neu - sum(1 for d in failed if d.get('kind') == 'neutral'),
             'selftest_neutral': n_neu, 'selftest_not_applicable': n_skip,
             'selftest_detail': detail}
    return (2 if failed else 0), extra


if __name__ == '__main__':
    import sys
    prop = sys.argv[1]
    code, extra = run(prop, repo=os.environ.get('VERIF_REPO', '/repo'), only=sys.argv[2:] or None)
    for d in extra.get('selftest_detail', []):
        print(d)
    sys.exit(code)
