"""E3: stop/accept predicates as boolean functions of their atomic conditions.

For a function and a classification of its return statements into outcomes, the
path conditions (canonical terms, evaluated in the environment current at each
test) are collected per outcome; the resulting boolean function is compared
with a specification - written as a python expression and run through the same
canonicaliser - by exhaustive truth table over the union of their atoms.
"""
import ast
import itertools

from .srcmodel import AnalysisError
from .paths import enumerate_paths
from . import terms as T


def leaves(f, acc=None):
    acc = acc if acc is not None else []
    if isinstance(f, tuple) and f and f[0] in ('and', 'or'):
        for x in f[1:]:
            leaves(x, acc)
    elif isinstance(f, tuple) and f and f[0] == 'not':
        leaves(f[1], acc)
    elif isinstance(f, tuple) and f and f[0] == 'const' and isinstance(f[1], bool):
        pass
    else:
        if f not in acc:
            acc.append(f)
    return acc


def ev(f, val):
    if isinstance(f, tuple) and f:
        if f[0] == 'and':
            return all(ev(x, val) for x in f[1:])
        if f[0] == 'or':
            return any(ev(x, val) for x in f[1:])
        if f[0] == 'not':
            return not ev(f[1], val)
        if f[0] == 'const' and isinstance(f[1], bool):
            return f[1]
    return val[f]


def equivalent(f1, f2, max_atoms=14):
    """(True, None, rows) or (False, counterexample {atom: bool}, rows)"""
    atoms = leaves(f1)
    for a in leaves(f2):
        if a not in atoms:
            atoms.append(a)
    if len(atoms) > max_atoms:
        raise AnalysisError('too many atoms (%d) for a truth table' % len(atoms))
    rows = 0
    for bits in itertools.product((False, True), repeat=len(atoms)):
        val = dict(zip(atoms, bits))
        rows += 1
        if ev(f1, val) != ev(f2, val):
            return False, val, rows
    return True, None, rows


def outcome_formulas(fnode, classify, builder=None, relevant=None, follow=None, unroll=(0, 1)):
    """returns {outcome: formula} where formula = ('or', ('and', literal...), ...)
    classify(return_stmt, builder) -> outcome label or None (ignored path)."""
    paths = enumerate_paths(fnode, relevant=relevant, unroll=unroll)
    out = {}
    n = 0
    for p in paths:
        if p.exit != 'return':
            continue
        b = builder.copy() if builder is not None else T.Builder()
        lits = []
        for e in p.events:
            if e[0] == 'stmt':
                st = e[1]
                if isinstance(st, ast.Return):
                    continue
                if follow is None or follow(st):
                    b.exec_stmt(st)
            elif e[0] == 'cond':
                tt = T.simp(b.t(e[1]))
                lits.append(tt if e[2] else ('not', tt))
        label = classify(p.exit_node, b)
        if label is None:
            continue
        n += 1
        out.setdefault(label, []).append(('and',) + tuple(lits) if lits else ('const', True))
    return {k: ('or',) + tuple(v) for k, v in out.items()}, n


def spec_formula(src, env_src=None, builder=None):
    """canonical formula of a specification written as python source.
    env_src: list of 'name = expr' strings evaluated first (prelude)."""
    b = builder.copy() if builder is not None else T.Builder()
    for line in env_src or []:
        st = ast.parse(line).body[0]
        b.exec_stmt(st)
    node = ast.parse(src, mode='eval').body
    return T.simp(b.t(node))
