"""command line of the checker:  python -m sa.cli C05 --tier quick"""
import argparse
import json
import os
import sys
import traceback


def main(argv=None):
    ap = argparse.ArgumentParser()
    ap.add_argument('prop')
    ap.add_argument('--tier', default=os.environ.get('VERIF_TIER') or 'quick', choices=['quick', 'thorough'])
    ap.add_argument('--repo', default=os.environ.get('VERIF_REPO') or '/repo')
    ap.add_argument('--replay', default=None)
    ap.add_argument('--rule', default=None)
    ap.add_argument('--evidence-dir', default=None)
    ap.add_argument('--no-evidence', action='store_true')
    ap.add_argument('--no-selftest', action='store_true')
    ap.add_argument('-q', '--quiet', action='store_true')
    a = ap.parse_args(argv)
    try:
        seed = int(os.environ.get('VERIF_SEED') or 0)
    except ValueError:
        seed = 0
    from sa import core
    only = a.rule
    if a.replay:
        with open(a.replay) as f:
            rp = json.load(f)
        only = rp.get('rule')
        print('replaying %s %s (%s)' % (rp.get('rule'), rp.get('construct'), rp.get('message')))
    try:
        extra = None
        st_code = 0
        code, ev = core.run_property(a.prop, repo=a.repo, tier=a.tier, seed=seed,
                                     evidence_dir=a.evidence_dir, only_rule=only, quiet=a.quiet)
        if a.tier == 'thorough' and not a.no_selftest and not a.replay and code != 2:
            from sa import selftest
            st_code, extra = selftest.run(a.prop, repo=a.repo, seed=seed, quiet=a.quiet)
            if ev is not None and extra:
                ev['coverage'].update(extra)
        if ev is not None and not a.no_evidence and not a.replay:
            core.write_evidence(ev, a.evidence_dir)
        if code == 0 and st_code:
            print('ANALYSIS-ERROR property=%s checker self-validation failed' % a.prop)
            code = 2
        if code == 0:
            print('OK property=%s tier=%s obligations=%s wall=%.2fs' % (
                a.prop, a.tier, ev['coverage']['obligations'], ev['wall_s']))
        return code
    except SystemExit:
        raise
    except BaseException as e:   # a crash of the checker is never a violation
        traceback.print_exc()
        print('ANALYSIS-ERROR property=%s internal error: %s: %s' % (a.prop, type(e).__name__, e))
        return 2


if __name__ == '__main__':
    sys.exit(main())
