"""CandidateRelativeTolerance: result depends on the position of a nan in the candidate differences."""
import numpy as np
from mystic.solvers import NelderMeadSimplexSolver
from mystic.termination import CandidateRelativeTolerance

def documented(pop, popE, xtol, ftol):
    "abs(xi-x0) <= xtol  &  abs(fi-f0) <= ftol   for every candidate i"
    pop = np.array(pop, float); popE = np.array(popE, float)
    with np.errstate(invalid='ignore'):
        return bool(np.all(np.abs(pop[1:] - pop[0]) <= xtol) and
                    np.all(np.abs(popE[1:] - popE[0]) <= ftol))

inf = float('inf')
solver = NelderMeadSimplexSolver(2)          # simplex of 3 candidates
solver.SetInitialPoints([1., 1.])
term = CandidateRelativeTolerance(xtol=1e-4, ftol=1e-4)

failures = []; results = []
for pop in ([[0.0, inf], [0.0, inf], [0.0, inf]],       # nan difference in the LAST column
            [[inf, 0.0], [inf, 0.0], [inf, 0.0]],       # same thing, columns swapped
            [[0.0, inf], [0.0, inf], [5.0, inf]],       # a finite spread of 5 behind a nan ...
            [[0.0, inf], [5.0, inf], [0.0, inf]]):
    solver.population = [list(p) for p in pop]
    solver.popEnergy = [1.0, 1.0, 1.0]
    got = bool(term(solver))
    want = documented(pop, solver.popEnergy, 1e-4, 1e-4)
    print(pop, '->', got, '(documented: %s)' % want)
    results.append(got)
    if got != want: failures.append(pop)

# whatever one thinks abs(inf-inf) <= xtol should mean, swapping the two parameter columns of the
# same population must not change the answer
assert results[0] == results[1], "answer depends on the column order of the population"

assert not failures, "satisfied although abs(xi-x0) <= xtol does not hold: %s" % failures
print("ok")
