"""C08 / Powell: on an objective that is +inf on part of the plane (a hard wall), mystic's
stop rule NormalizedChangeOverGeneration declares convergence as soon as two successive
sweeps both end at inf (its `hist[-g] == hist[-1]` shortcut), whereas the reference test
2*(fx - fval) <= ftol*(|fx|+|fval|) + 1e-20 is False for inf - inf = nan, so Powell's
method keeps sweeping (and here walks out of the infeasible region to the minimum).

Reference = scipy (1.1.0) fmin_powell logic, verbatim, with mystic's own brent.
"""
import warnings
import numpy as np
from numpy import asarray, eye, squeeze
warnings.filterwarnings('ignore')
from mystic._scipy060optimize import brent
from mystic.solvers import fmin_powell

def cost(x):
    return np.inf if x[0] < 0 else (x[0] - 1)**2 + (x[1] - 2)**2
x0 = [-50., 3.]
xtol, ftol = 1e-4, 1e-4

def _ls(func, p, xi, tol):
    old = np.seterr(all='ignore')
    a, fret, _, _ = brent(lambda alpha: func(p + alpha*xi), full_output=1, tol=tol)
    np.seterr(**old)
    xi = a*xi
    return squeeze(fret), p + xi, xi

def reference(f, x0, xtol, ftol):
    calls = [0]
    def func(x):
        calls[0] += 1; return f(x)
    x = asarray(x0, dtype=float).flatten(); N = len(x)
    maxiter = maxfun = N*1000
    direc = eye(N); fval = squeeze(func(x)); x1 = x.copy(); it = 0
    old = np.seterr(all='ignore')
    while True:
        fx = fval; bigind = 0; delta = 0.0
        for i in range(N):
            fx2 = fval
            fval, x, _ = _ls(func, x, direc[i], xtol*100)
            if (fx2 - fval) > delta: delta = fx2 - fval; bigind = i
        it += 1
        if 2.0*(fx - fval) <= ftol*(abs(fx) + abs(fval)) + 1e-20: break
        if calls[0] >= maxfun or it >= maxiter: break
        d1 = x - x1; x2 = 2*x - x1; x1 = x.copy(); fx2 = squeeze(func(x2))
        if fx > fx2:
            t = 2.0*(fx + fx2 - 2.0*fval); tmp = fx - fval - delta; t *= tmp*tmp
            tmp = fx - fx2; t -= delta*tmp*tmp
            if t < 0.0:
                fval, x, d1 = _ls(func, x, d1, xtol*100)
                direc[bigind] = direc[-1]; direc[-1] = d1
    np.seterr(**old)
    return x, float(fval), it, calls[0]

ref = reference(cost, x0, xtol, ftol)
got = fmin_powell(cost, x0, xtol=xtol, ftol=ftol, full_output=1, disp=0)
print("reference:", ref)
print("mystic   :", got[:4])
assert ref[2] >= 2    # (not the known 'cannot stop after the first sweep' case)
assert np.allclose(got[0], ref[0]) and float(got[1]) == ref[1] and (got[2], got[3]) == ref[2:], \
    "fmin_powell stopped at %s after %s iterations / %s evaluations" % (got[0], got[2], got[3])
print("ok")
