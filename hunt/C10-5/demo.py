"""Look-back window exactly as long as the history: cost[-g] exists, but the conditions refuse to look at it."""
from mystic.solvers import NelderMeadSimplexSolver
from mystic.termination import (ChangeOverGeneration, NormalizedChangeOverGeneration,
                                VTRChangeOverGeneration, NormalizedCostTarget)
solver = NelderMeadSimplexSolver(2)
solver.SetInitialPoints([1., 1.])

failures = []
for hist in ([5.0, 5.0, 5.0], [9.0, 5.0, 5.0 - 1e-9], [1.0]):
    g = len(hist)                       # cost[-g] is cost[0]: a perfectly valid index
    solver.energy_history = hist
    change = hist[-g] - hist[-1]        # documented left-hand side
    checks = [
      ("ChangeOverGeneration",           ChangeOverGeneration(1e-6, g),            change <= 1e-6),
      ("NormalizedChangeOverGeneration", NormalizedChangeOverGeneration(1e-4, g),
            change == 0 or change / (0.5*(abs(hist[-g]) + abs(hist[-1]))) <= 1e-4),
      ("VTRChangeOverGeneration",        VTRChangeOverGeneration(1e-9, 1e-6, g, target=-100.), change <= 1e-6),
      ("NormalizedCostTarget",           NormalizedCostTarget(None, 1e-6, g),      hist[-1] - hist[-g] == 0),
    ]
    for name, cond, want in checks:
        got = cond(solver)
        if got != want:
            failures.append("%s(generations=%d) on %s -> %s, documented inequality gives %s"
                            % (name, g, hist, got, want))
for f in failures: print("VIOLATION:", f)
assert not failures
print("ok")
