"""C05 hunt #7: a NelderMead solver with strict ranges that has stopped by its termination
condition iterates again on the next Step/Solve, although Terminated() is True when called.

Property: after its initial evaluation a solver never begins a further iteration when, at
that moment, its termination condition holds (histories: "a second Solve on the same solver").
"""
import numpy as np
from mystic.solvers import NelderMeadSimplexSolver

calls = [0]
def cost(x):
    calls[0] += 1
    x = np.asarray(x)
    return float(((x - 1.)**2).sum() + (x[0]*x[1] - 1.)**2)

def run(bounded):
    s = NelderMeadSimplexSolver(3)
    s.SetInitialPoints([0.8, 1.2, 0.7])
    if bounded: s.SetStrictRanges([-5]*3, [5]*3)
    s.Solve(cost)                                  # default termination: CandidateRelativeTolerance
    assert s.Terminated(info=True).startswith('CandidateRelativeTolerance')
    g, e, n = s.generations, s.evaluations, calls[0]
    assert s.Terminated()                          # condition holds now
    msg = s.Step()                                 # so this must not iterate
    return s, msg, s.generations - g, calls[0] - n

s, msg, dg, dn = run(bounded=False)                # reference: unbounded solver does nothing
assert msg and dg == 0 and dn == 0

s, msg, dg, dn = run(bounded=True)
print('Step returned', msg, '; further iterations:', dg, '; further evaluations:', dn)
assert msg is not None and dg == 0 and dn == 0, \
    "terminated solver performed %d iteration(s), %d evaluation(s) in Step" % (dg, dn)
print('ok')
