"""C07 hunt #4: mystic.tools.random_seed(s) seeds python's `random` but
silently leaves numpy's global generator unseeded for every seed that python
accepts and numpy does not (negative ints, ints >= 2**32, floats, strings,
bytes).  Everything in mystic that draws from numpy.random (BuckshotSolver /
SparsitySolver start points, SetMultinormalInitialPoints, SetSampledInitial-
Points, SetDistribution, MixedSolver) is then not reproducible: two runs with
the same seed and the same settings give different results.
"""
import numpy
from mystic.solvers import BuckshotSolver, DifferentialEvolutionSolver2
from mystic.termination import VTR
from mystic.tools import random_seed


def cost(x):
    x = numpy.asarray(x)
    return float(((x - numpy.array([1.2, 2.7]))**2).sum() + 0.8*numpy.sin(3*x).sum())


def buckshot(seed):
    random_seed(seed)
    s = BuckshotSolver(2, 4)                 # Nelder-Mead members
    s.SetStrictRanges([0., 0.], [5., 5.])
    s.SetEvaluationLimits(50, 1000)
    s.Solve(cost)
    return (numpy.asarray(s.bestSolution, float).tolist(), float(s.bestEnergy),
            [numpy.asarray(x, float).tolist() for x in s._all_bestSolution],
            int(s.evaluations), int(s.generations))


def de2(seed):
    random_seed(seed)
    s = DifferentialEvolutionSolver2(2, 8)
    s.SetMultinormalInitialPoints([2., 2.], 1.0)
    s.SetEvaluationLimits(10, 1000)
    s.SetTermination(VTR(-1e9))
    s.Solve(cost)
    return (numpy.asarray(s.bestSolution, float).tolist(), float(s.bestEnergy),
            numpy.asarray(s.popEnergy, float).tolist())

bad = []
for seed in (123, 0, 2**32 - 1, -5, 2**32, 2**40 + 1, 1.5, 'abc', b'xy'):
    for run in (buckshot, de2):
        same = run(seed) == run(seed)
        print('%-10s seed=%-15r reproducible: %s' % (run.__name__, seed, same))
        if not same: bad.append((run.__name__, seed))

assert not bad, "same seed, same settings, different results: %s" % bad
print("OK")
