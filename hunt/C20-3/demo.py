"""C20 hunt 3: after one parameter file has been read, a parameter file with the
same name in ANOTHER directory is read back as the first one (and one with a
different name is 'not found')."""
import os, tempfile
from mystic.monitors import Monitor
from mystic.munge import (write_raw_file, read_raw_file,
                          write_support_file, read_support_file)

run1 = tempfile.mkdtemp()   # e.g. results of a first optimisation
run2 = tempfile.mkdtemp()   # e.g. results of a second optimisation

m1 = Monitor(); m1([1.0, 2.0], 3.0); m1([4.0, 5.0], 6.0)
m2 = Monitor(); m2([7.0, 8.0], 9.0); m2([1.5, 2.5], 3.5)

failures = []

# 'paramlog.py' is the default file name of all munge.write_* functions
f1 = os.path.join(run1, 'paramlog.py'); write_raw_file(m1, f1)
f2 = os.path.join(run2, 'paramlog.py'); write_raw_file(m2, f2)

p1, c1 = read_raw_file(f1)
if not (p1 == m1.x and c1 == m1.y): failures.append('first file: %r %r' % (p1, c1))
p2, c2 = read_raw_file(f2)
if not (p2 == m2.x and c2 == m2.y):
    failures.append('second file %s read back as %r %r, recorded %r %r' % (f2, p2, c2, m2.x, m2.y))

# a differently named file in the second directory
f3 = os.path.join(run2, 'support.py'); write_support_file(m2, f3)
try:
    p3, c3 = read_support_file(f3)   # layout: params[candidate][parameter][iteration]
    if not ([list(i) for i in zip(*p3[0])] == m2.x and c3 == m2.y):
        failures.append('third file: %r %r' % (p3, c3))
except Exception as e:
    failures.append('third file %s: %r' % (f3, e))

for msg in failures: print(msg)
assert not failures, "parameter files in a second directory are not read back"
print('ok')
