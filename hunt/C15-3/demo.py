"""C15: a violated condition adds a strictly positive amount equal to
pk*f(x)**2 (2*pk*f(x)**2 for the inequality type), and error(x) is the
violation magnitude -- also when the evaluation point is an integer ndarray,
so that the condition value is a numpy integer."""
import warnings
import numpy as np
from mystic import penalty as mp

warnings.simplefilter('ignore')
cond = lambda x: x[0] - 3           # satisfied at x[0] == 3 (<= 3)
bad = []
for t, fac in (('quadratic_equality', 1), ('quadratic_inequality', 2),
               ('lagrange_equality', 1), ('lagrange_inequality', 1)):
    kw = dict(k=100, h=5)
    p = getattr(mp, t)(cond, **kw)(lambda x: 0.)
    for x in (np.array([50003], dtype=np.int32),       # violation 50000
              np.array([3037000503], dtype=np.int64)): # violation 3037000500
        c = int(x[0]) - 3
        expected = fac * 100 * float(c) ** 2
        got = p(x)
        if not (got > 0 and abs(got - expected) <= 1e-9 * expected):
            bad.append((t, x.dtype, c, got, expected))
        e = p.error(x)
        if not abs(e - c) <= 1e-9 * c:
            bad.append((t + '.error', x.dtype, c, e, float(c)))
for b in bad:
    print("integer condition value:", b)
assert not bad
print("ok")
