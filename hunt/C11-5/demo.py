"""C11 hunt 5: a CollapseCost collapse whose interval has zero width (lo == hi, which happens as soon
as the recorded history repeats a parameter value) is reported again and again: the detector's own
output, used as mask, yields something new; inside a solver the termination mask flips between two
values, Collapse() keeps returning a collapse without any cost evaluation in between, and Solve()
never returns."""
import numpy as np
from mystic.solvers import NelderMeadSimplexSolver
from mystic.termination import Or, CollapseCost, state
from mystic.termination import ChangeOverGeneration as COG
from mystic.models import rosen
import mystic.collapse as ct

class Stuck(Exception): pass

s = NelderMeadSimplexSolver(3)
s.SetInitialPoints([24.580338977940386, 48.35739785214588, 59.03871311313932])
s.SetEvaluationLimits(generations=2000, evaluations=200000)
opts = dict(clip=True, limit=1.95, samples=20)
s.SetTermination(Or(CollapseCost(mask=None, **opts), COG(generations=100)))
calls = []
def f(x):
    calls.append(1); return rosen(x)

log = []      # (evaluations so far, generations, reported collapse, mask before, mask after)
_Collapse = s.Collapse
def Collapse(disp=False):
    before = [v['mask'] for k, v in state(s._termination).items() if k.startswith('CollapseCost')][0]
    c = _Collapse(disp)
    if c:
        after = [v['mask'] for k, v in state(s._termination).items() if k.startswith('CollapseCost')][0]
        log.append((len(calls), s.generations, list(c.values())[0], before, after))
        # guard: 25 collapses in a row without a single new evaluation == will never terminate
        if len(log) >= 25 and len(set(l[0] for l in log[-25:])) == 1:
            raise Stuck()
    return c
s.Collapse = Collapse

stuck = False
try:
    s.Solve(f)
except Stuck:
    stuck = True
finally:
    if hasattr(s, '__stop__'): del s.__stop__

failures = []
for l in log[:6]: print("evals=%d gen=%d reported=%s" % l[:3])
if stuck:
    failures.append("Solve() does not terminate: %d consecutive collapses at evaluation %d / generation %d, "
                    "mask alternates between %s and %s" % (25, log[-1][0], log[-1][1], log[-2][4], log[-1][4]))
# the same collapse must never be reported twice
seen = []
for l in log:
    if l[2] in seen:
        failures.append("the collapse %s was reported (and applied) more than once" % (l[2],)); break
    seen.append(l[2])
# the mask must grow: whatever was in the mask before must still be covered afterwards
for l in log:
    before, after = l[3] or {}, l[4] or {}
    lost = [k for k in before if k not in after]
    if lost:
        failures.append("mask lost the entries for parameter(s) %s after applying %s" % (lost, l[2])); break

# detector level: feed the detector its own output as mask, on the recorded history
mon = s._stepmon
r1 = ct.collapse_cost(mon, mask=None, **opts)
r2 = ct.collapse_cost(mon, mask=r1, **opts)
print("r1 =", r1); print("r2 =", r2)
if r2: failures.append("collapse_cost(mask=own output) is not empty: %s" % (r2,))

for x in failures: print("VIOLATION:", x)
assert not failures, "%d violation(s)" % len(failures)
print("OK")
