"""C11 hunt 1: a parameter that is BOTH fixed at a target (CollapseAt) and tied to a
partner (CollapseAs), or tied in two successive CollapseAs collapses, does not
satisfy all applied relations: the later-applied overwrite undoes the other."""
import numpy as np
from mystic.solvers import PowellDirectionalSolver, NelderMeadSimplexSolver
from mystic.termination import Or, CollapseAt, CollapseAs, state
from mystic.termination import ChangeOverGeneration as COG

failures = []

# ---------------------------------------------------------------- part A
# real solve (Powell is deterministic): x1 -> 0 (collapses AT target 0.0),
# x0 -> 0.005 (not within 1e-4 of 0), and |x0-x1| <= 1e-2 so (0,1) collapses AS.
def cost(x):
    return x[1]**2 + (x[0]-0.005)**2 + (x[2]+x[3]-1)**2 + (x[2]-x[3])**2

calls = []
def f(x):
    calls.append(np.array(x, dtype=float))
    return cost(x)

s = PowellDirectionalSolver(4)
s.SetInitialPoints([1.,1.,1.,-1.])
s.SetEvaluationLimits(generations=3000, evaluations=200000)
s.SetTermination(Or(COG(1e-12, 200),
                    CollapseAt(0.0, tolerance=1e-4, generations=30),
                    CollapseAs(tolerance=1e-2, generations=30)))
applied = []   # (number of cost calls so far, {doc: collapse})
_Collapse = s.Collapse
def Collapse(disp=False):
    c = _Collapse(disp)
    if c: applied.append((len(calls), c))
    return c
s.Collapse = Collapse
s.Solve(f)

fixed, pairs, start = set(), set(), None
for (ncall, c) in applied:
    start = ncall if start is None else start
    for k, v in c.items():
        if k.startswith('CollapseAt'): fixed |= set(int(i) for i in v)
        if k.startswith('CollapseAs'): pairs |= set((int(a), int(b)) for a, b in v)
assert applied, "no collapse was applied (demo precondition)"
print("applied:", [list(c.values()) for _, c in applied])
# the masks say these collapses were applied
masks = [v['mask'] for k, v in state(s._termination).items() if k.startswith('Collapse')]
print("final masks:", masks)
last = applied[-1][0]
after = np.array(calls[last:])
for i in fixed:
    n = int((after[:, i] != 0.0).sum())
    if n: failures.append("A: x[%d] fixed at 0.0 by CollapseAt, but %d of %d later evaluations have x[%d] != 0 (e.g. %r)" % (i, n, len(after), i, after[after[:, i] != 0.0][0].tolist()))
    if s.bestSolution[i] != 0.0: failures.append("A: bestSolution[%d] = %r != target 0.0" % (i, s.bestSolution[i]))
for a, b in pairs:
    n = int((after[:, a] != after[:, b]).sum())
    if n: failures.append("A: x[%d]==x[%d] violated in %d later evaluations" % (a, b, n))

# ---------------------------------------------------------------- part B
# crafted recorded history, successive CollapseAs: first (0,1), later only (1,2)
def feed(s, rows):
    for r in rows: s._stepmon(list(r), float(sum(r)))
    s.energy_history = None; s.solution_history = None

s = NelderMeadSimplexSolver(3)
s.SetInitialPoints([0.,0.,5.])
s.SetTermination(Or(COG(1e-30, 10**6), CollapseAs(tolerance=0.01, generations=4)))
feed(s, [[1.,1.008,5.],[1.,1.008,4.],[1.,1.008,1.016],[1.,1.008,1.016],[1.,1.008,1.016]])
c1 = s.Collapse()
assert list(c1.values()) == [{(0, 1)}], c1
feed(s, [[1.008,1.008,1.016]])   # a post-collapse point (x0 == x1)
c2 = s.Collapse()                # window still holds 3 pre-collapse rows: only (1,2) is new
assert list(c2.values()) == [{(1, 2)}], c2
mask = [v['mask'] for k, v in state(s._termination).items() if k.startswith('CollapseAs')][0]
assert mask == {(0, 1), (1, 2)}, mask
x = list(s._constraints([1., 2., 3.]))
print("B: constraints([1,2,3]) ->", x)
if not (x[0] == x[1] == x[2]):
    failures.append("B: after applying (0,1) then (1,2) the constraint maps [1,2,3] to %r: x1 != x2" % (x,))

# ---------------------------------------------------------------- part C
# crafted history, successive: CollapseAt {1} first, CollapseAs (0,1) later
s = NelderMeadSimplexSolver(2)
s.SetInitialPoints([0.,0.])
s.SetTermination(Or(COG(1e-30, 10**6), CollapseAt(0.0, tolerance=1e-4, generations=3),
                    CollapseAs(tolerance=1e-2, generations=3)))
feed(s, [[.5, 0.], [.4, 0.], [.3, 0.], [.2, 0.]])
c1 = s.Collapse()
assert list(c1.values()) == [{1}], c1
feed(s, [[.005, 0.], [.005, 0.], [.005, 0.]])
c2 = s.Collapse()
assert list(c2.values()) == [{(0, 1)}], c2
x = list(s._constraints([7., 9.]))
print("C: constraints([7,9]) ->", x)
if not (x[1] == 0.0 and x[0] == x[1]):
    failures.append("C: x1 fixed at 0 and x0 tied to x1, but constraint maps [7,9] to %r" % (x,))

for m in failures: print("VIOLATION:", m)
assert not failures, "%d violation(s)" % len(failures)
print("OK")
