"""C05 hunt #2: an exit request is ignored by the ensemble solvers.

Property: after its initial evaluation a solver never begins a further
iteration when an exit has been requested; the stop message names a condition
that is true of the final state (here: SolverInterrupt).

The exit is requested in the documented way: the signal handler is enabled,
SIGINT arrives while the solver runs, and the user answers 'exit'.
"""
import os, io, signal, random, builtins, contextlib
import numpy as np
from mystic.solvers import BuckshotSolver, NelderMeadSimplexSolver
from mystic.termination import VTR

builtins.input = lambda *args: 'exit'      # the user's answer to the handler's prompt

K = 12                                     # the evaluation during which SIGINT arrives
state = dict(n=0, solver=None, iters_at_request=None)
def cost(x):
    state['n'] += 1
    if state['n'] == K:
        s = state['solver']
        state['iters_at_request'] = list(getattr(s, '_all_iters', [s.generations]))
        os.kill(os.getpid(), signal.SIGINT)  # handler runs now, sets _EARLYEXIT
    x = np.asarray(x)
    return float(((x - 1.)**2).sum() + (x[0]*x[1] - 1.)**2) + 1.0   # never reaches VTR

def run(solver, **kwds):
    state.update(n=0, solver=solver, iters_at_request=None)
    solver.SetEvaluationLimits(60, 10**6)
    solver.SetTermination(VTR(1e-30))
    solver.SetObjective(cost)
    solver.enable_signal_handler()
    with contextlib.redirect_stdout(io.StringIO()):
        solver.Solve(**kwds)
    return solver

# reference: a plain solver honours the request (stops within the iteration in progress)
random.seed(0); np.random.seed(0)
s = NelderMeadSimplexSolver(2); s.SetInitialPoints([0.5, 1.5])
run(s)
assert s._EARLYEXIT
assert s.Terminated(info=True).startswith('SolverInterrupt'), s.Terminated(info=True)
assert s.generations <= state['iters_at_request'][0] + 1

# ensemble solver, run iteration by iteration (step=True): after the request no member
# may begin more than the iteration that was in progress
random.seed(0); np.random.seed(0)
e = BuckshotSolver(2, npts=3); e.SetStrictRanges([-3, -3], [3, 3])
run(e, step=True)
assert e._EARLYEXIT                          # the request was registered ...
before, after = state['iters_at_request'], e._all_iters
print('iterations of the members at the request:', before, ' at return:', after,
      ' message:', e.Terminated(info=True))
assert all(a <= b + 1 for a, b in zip(after, before)), \
    "ensemble members began %s further iterations after the exit request" % \
    [a - b for a, b in zip(after, before)]
assert e.Terminated(info=True).startswith('SolverInterrupt')
print('ok')
