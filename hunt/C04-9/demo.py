"""C04 hunt 9: an ensemble solver stepping nested Powell solvers reports an
energy history whose last entry is not its best energy, and a generation counter
one behind the iterations completed (it reads the nested step monitor, which
Powell fills one generation late)."""
import numpy as np
from mystic.solvers import BuckshotSolver, PowellDirectionalSolver
from mystic.monitors import Monitor
from mystic.termination import VTR
from mystic.tools import random_seed

def rosen(x):
    x = np.asarray(x, dtype=float)
    return float(np.sum(100.0*(x[1:]-x[:-1]**2)**2 + (1-x[:-1])**2))

random_seed(0)
solver = BuckshotSolver(2, 3)
solver.SetNestedSolver(PowellDirectionalSolver)
solver.SetStrictRanges([-2, -2], [2, 2])
solver.SetGenerationMonitor(Monitor()); solver.SetEvaluationMonitor(Monitor())
solver.SetTermination(VTR(1e-12))
solver.SetEvaluationLimits(generations=20)

bad = []
for n in range(1, 5):                       # generation 0 + 3 iterations of every member
    msg = solver.Step(rosen)
    assert not msg
    eh = [float(e) for e in solver.energy_history]
    nested = solver._bestSolver              # the member whose state the ensemble reports
    print("after Step %d: generations=%d (best member: %d)  energy_history[-1]=%.6g  bestEnergy=%.6g"
          % (n, solver.generations, nested.generations, eh[-1], float(solver.bestEnergy)))
    if eh[-1] != float(solver.bestEnergy): bad.append("Step %d: last history entry %r != bestEnergy %r" % (n, eh[-1], float(solver.bestEnergy)))
    if solver.generations != n-1: bad.append("Step %d: generations=%d, iterations completed=%d" % (n, solver.generations, n-1))
assert not bad, "\n".join(bad)
print("OK")
