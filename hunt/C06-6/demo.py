"""C06 hunt #6: an ensemble solver whose nested solver was configured with
SetNestedSolver(cls, NP=n) does not resume exactly when the checkpoint is
restored in a fresh interpreter (the normal situation after a crash): NP is kept
as an attribute of the nested solver *class*, which is not part of the pickle.

Run:  PYTHONPATH=/tmp/wt/C06 /venv/bin/python /tmp/wt/C06/_hunt/6/demo.py
exit 0 = property holds, exit 1 (AssertionError) = violated.
"""
import os, sys, json, pickle, random, shutil, subprocess, tempfile
import numpy as np
from mystic.solvers import LatticeSolver, DifferentialEvolutionSolver, LoadSolver
from mystic.monitors import Monitor
from mystic.termination import VTR
from mystic.models import rosen

NSTEP, CRASH = 6, 3

def observe(s):
    f = lambda a: np.asarray(a, dtype=float).tolist()
    return dict(bestSolution=f(s.bestSolution), bestEnergy=float(s.bestEnergy),
                population=f(s.population), popEnergy=f(s.popEnergy),
                generations=s.generations, evaluations=s.evaluations,
                stepmon_y=f(s._stepmon.y))

def resume(tmp):
    "runs in a fresh interpreter: restore the checkpoint and continue"
    with open(os.path.join(tmp, 'rng.pkl'), 'rb') as f: rs = pickle.load(f)
    r = LoadSolver(os.path.join(tmp, 'ckpt.pkl'))
    random.setstate(rs[0]); np.random.set_state(rs[1])
    for i in range(CRASH, NSTEP): r.Step()
    with open(os.path.join(tmp, 'resumed.json'), 'w') as f: json.dump(observe(r), f)

def main(np_):
    tmp = tempfile.mkdtemp()
    try:
        random.seed(2); np.random.seed(2)
        s = LatticeSolver(2, 2)                          # 2 nested solvers
        if np_ is None: s.SetNestedSolver(DifferentialEvolutionSolver)
        else: s.SetNestedSolver(DifferentialEvolutionSolver, NP=np_)
        s.SetStrictRanges([-2., -2.], [2., 2.])
        s.SetEvaluationMonitor(Monitor()); s.SetGenerationMonitor(Monitor())
        s.SetObjective(rosen); s.SetTermination(VTR(1e-10))
        for i in range(NSTEP):
            if i == CRASH:                               # checkpoint after generation CRASH-1
                s.SaveSolver(os.path.join(tmp, 'ckpt.pkl'))
                with open(os.path.join(tmp, 'rng.pkl'), 'wb') as f:
                    pickle.dump((random.getstate(), np.random.get_state()), f)
            s.Step()
        ref = json.loads(json.dumps(observe(s)))         # the uninterrupted run
        subprocess.check_call([sys.executable, os.path.abspath(__file__), '--resume', tmp])
        with open(os.path.join(tmp, 'resumed.json')) as f: got = json.load(f)
        return [k for k in ref if ref[k] != got[k]], ref, got
    finally:
        shutil.rmtree(tmp)

if __name__ == '__main__':
    if sys.argv[1:2] == ['--resume']:
        resume(sys.argv[2]); sys.exit(0)
    d0, _, _ = main(None)        # control: nested DE with its default population size
    d7, ref, got = main(7)       # nested DE with NP=7
    print("nested DE, default NP: differences after resuming in a new process:", d0)
    print("nested DE, NP=7      : differences after resuming in a new process:", d7)
    if d7: print("   best energy uninterrupted %r, resumed %r" % (ref['bestEnergy'], got['bestEnergy']))
    assert not d0 and not d7, "the resumed ensemble run differs from the uninterrupted run"
    print("ok")
