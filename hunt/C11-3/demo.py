"""C11 hunt 3: CollapseWeight / CollapsePosition accept masks as dict, set of tuples, or
'where' tuple (the mask format selects the format of the reported collapse), but a solver
can only APPLY the dict format: with any other accepted format Solve() dies in the first
cost evaluation after the collapse."""
import numpy as np
from mystic.math.discrete import product_measure
from mystic.monitors import Monitor
from mystic.solvers import NelderMeadSimplexSolver
from mystic.termination import Or, CollapseWeight, CollapsePosition, state
from mystic.termination import ChangeOverGeneration as COG

npts = (2, 2)   # params: [w0a w0b][x0a x0b][w1a w1b][x1a x1b]
def cost(rv):
    c = product_measure().load(rv, npts)
    return (c[0].weights[1])**2 + (c[1].positions[0]-c[1].positions[1])**2 \
         + (c[0].positions[0]-1)**2 + (c[0].positions[1]+1)**2 + (c[1].positions[0]-2)**2
def normalize(rv):
    c = product_measure().load(rv, npts)
    for m in c:
        if m.mass != 1.0 and m.mass != 0: m.normalize()
    return c.flatten()

def solve(wmask, pmask):
    calls = []
    def f(x):
        calls.append(np.array(x, dtype=float)); return cost(x)
    s = NelderMeadSimplexSolver(8)
    s.SetInitialPoints([.5,.5,0.,.5,.5,.5,0.,1.])
    mon = Monitor(); mon._npts = npts
    s.SetGenerationMonitor(mon)
    s.SetStrictRanges([0,0,-3,-3,0,0,-3,-3],[1,1,3,3,1,1,3,3])
    s.SetConstraints(normalize)
    s.SetEvaluationLimits(generations=5000, evaluations=100000)
    s.SetTermination(Or(COG(1e-14,300),
                        CollapseWeight(tolerance=1e-3, generations=40, mask=wmask),
                        CollapsePosition(tolerance=1e-3, generations=40, mask=pmask)))
    applied = []
    _Collapse = s.Collapse
    def Collapse(disp=False):
        c = _Collapse(disp)
        if c: applied.append((len(calls), c))
        return c
    s.Collapse = Collapse
    s.Solve(f)
    return s, calls, applied

def pairs_w(c):   # any format -> {(measure, index)}
    if isinstance(c, dict): return set((int(m), int(i)) for m, v in c.items() for i in v)
    if isinstance(c, set): return set((int(m), int(i)) for m, i in c)
    return set((int(m), int(i)) for m, i in zip(*c)) if len(c) else set()
def pairs_p(c):
    if isinstance(c, dict): return set((int(m), (int(a), int(b))) for m, v in c.items() for a, b in v)
    if isinstance(c, set): return set((int(m), (int(p[0]), int(p[1]))) for m, p in c)
    return set((int(m), (int(p[0]), int(p[1]))) for m, p in zip(*c)) if len(c) else set()

failures = []
formats = [('dict', {}, {}), ('set', set(), set()), ('where', (), ()),
           ('set, non-empty', {(1, 1)}, {(0, (0, 1))}),
           ('where, non-empty', ((1,), (1,)), ((0,), ((0, 1),)))]
for name, wmask, pmask in formats:
    try:
        s, calls, applied = solve(wmask, pmask)
    except Exception as e:
        failures.append("%s masks: Solve() raised %s: %s" % (name, type(e).__name__, e))
        continue
    assert applied, "demo precondition: a collapse is applied"
    # every later evaluation and the final solution must satisfy the applied collapses
    W, P = set(), set()
    for (ncall, c) in applied:
        for k, v in c.items():
            if k.startswith('CollapseWeight'): W |= pairs_w(v)
            else: P |= pairs_p(v)
    last = applied[-1][0]
    for x in calls[last:] + [np.array(s.bestSolution)]:
        c = product_measure().load(list(x), npts)
        for (m, i) in W:
            if c[m].weights[i] != 0.0: failures.append("%s: weight (%d,%d) = %r != 0" % (name, m, i, c[m].weights[i])); break
        for (m, (a, b)) in P:
            if c[m].positions[a] != c[m].positions[b]: failures.append("%s: positions %d,%d of measure %d differ" % (name, a, b, m)); break
    print(name, "ok: applied", sorted(W), sorted(P), "generations", s.generations)

for f in failures: print("VIOLATION:", f)
assert not failures, "%d violation(s)" % len(failures)
print("OK")
