"""C20 hunt 5: a scalar cost / scalar parameter that is a numpy scalar of another
precision than float64 (float32, float16, longdouble) is written to the log with
str(), i.e. with fewer digits than identify the value; the value read back differs
from the one recorded.  (Inside a list the same value is written with repr() and is
read back exactly.)

Values are compared as real numbers (after float()), because numpy 2 compares a
float32 with a python float in float32 precision: 0.3 == numpy.float32(0.3) is True
although the two numbers differ by 1.2e-8."""
import os, tempfile
import numpy as np
from mystic.monitors import LoggingMonitor
from mystic.munge import logfile_reader

d = tempfile.mkdtemp()
log = os.path.join(d, 'log.txt')
mon = LoggingMonitor(1, log, new=True)

x = np.array([0.1, 0.2], dtype=np.float32)
y = np.float32(0.1) * np.float32(3)           # a float32 cost: 0.3 (float32) = 0.30000001192092896
mon(x, y)
mon(np.float32(0.7), np.float16(0.1))         # scalar parameter; float16 cost = 0.0999755859375

assert len(mon) == 2
assert mon.y[0] == y and mon.x[0] == list(x)  # the monitor itself gives back what was recorded

step, params, cost = logfile_reader(log, iter=True)
failures = []
if step != [(0,), (1,)]: failures.append('steps %r' % (step,))
if not ([float(i) for i in params[0]] == [float(i) for i in mon.x[0]]): failures.append('params[0] %r != %r' % (params[0], mon.x[0]))
if not (float(cost[0]) == float(mon.y[0])):
    failures.append('cost[0]: recorded %r (= %.17g), read back %r' % (mon.y[0], mon.y[0], cost[0]))
if not ([float(i) for i in params[1]] == [float(mon.x[1])]):
    failures.append('params[1]: recorded %r (= %.17g), read back %r' % (mon.x[1], mon.x[1], params[1]))
if not (float(cost[1]) == float(mon.y[1])):
    failures.append('cost[1]: recorded %r (= %.17g), read back %r' % (mon.y[1], mon.y[1], cost[1]))

for msg in failures: print(msg)
assert not failures, "the log does not give back the recorded numpy scalars"
print('ok')
