"""C14 hunt 6: constraints_parser renames 'prod(' to 'product(' but nothing
called 'product' exists in the solver namespace (numpy>=2 has no np.product),
so the constraints function of a text using numpy's prod raises NameError,
although the conditions/penalty of the same text work."""
from mystic.symbolic import (generate_solvers, generate_constraint,
                             generate_conditions, generate_penalty)
fails = []
for text, x in [("prod([x0,x1]) <= 5", [2., 4.]),
                ("x0 = prod([x1,x2])", [1., 2., 4.]),
                ("x0 >= prod([x1,x2])", [1., 2., 4.])]:
    p = generate_penalty(generate_conditions(text))
    print(repr(text), 'penalty before:', p(x))
    try:
        y = generate_constraint(generate_solvers(text))(list(x))
        v = p(y)
        print('   constrained:', y, 'penalty after:', v)
        if not abs(v) < 1e-20: fails.append((text, y, v))
    except Exception as e:
        print('   constraint raised %s: %s' % (type(e).__name__, e), [s.__doc__ for s in generate_solvers(text)])
        fails.append((text, type(e).__name__))
assert not fails, fails
