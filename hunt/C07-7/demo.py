"""C07 hunt #7 (borderline): switching strict ranges on and off again leaves
the old bounds behind, and the ensemble solvers keep using them to place their
start points.  Two ensembles with the same seed and the same final settings
(no strict ranges) give different results depending on the history of Set*
calls.
"""
import numpy
from mystic.solvers import LatticeSolver, BuckshotSolver
from mystic.tools import random_seed


def cost(x):
    x = numpy.asarray(x)
    return float(((x - numpy.array([1.2, 2.7]))**2).sum() + 0.8*numpy.sin(3*x).sum())


def run(cls, history):
    random_seed(1)
    s = cls(2, [2, 2]) if cls is LatticeSolver else cls(2, 4)
    if history:
        s.SetStrictRanges([0., 0.], [5., 5.])   # switched on ...
        s.SetStrictRanges(False)                # ... and off again
    s.SetEvaluationLimits(100, 2000)
    s.SetObjective(cost)
    assert s._useStrictRange is False
    s.Solve()
    return (numpy.asarray(s.bestSolution, float).tolist(), float(s.bestEnergy),
            [numpy.asarray(x, float).tolist() for x in s._all_bestSolution],
            [numpy.asarray(m._stepmon._x[0], float).tolist() for m in s._allSolvers])

bad = []
for cls in (LatticeSolver, BuckshotSolver):
    a, b = run(cls, False), run(cls, True)
    print(cls.__name__)
    print('   never set : start points', a[3])
    print('   set+unset : start points', b[3])
    if a != b: bad.append(cls.__name__)
assert not bad, "result depends on the history of SetStrictRanges calls: %s" % bad
print("OK")
