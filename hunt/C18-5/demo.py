# C18 (borderline; impose_moment is only named in the anchors):
# impose_moment must reach the target moment and keep the mean whenever the
# operation is defined.  The samples below have a non-zero third central
# moment, so any third moment can be imposed by a (signed) rescaling -
# impose_moment(..., skew=False) does it - but the default path returns NaNs.
import numpy as np
from mystic.math.measures import impose_moment, moment, mean

x = [3., -3., 1., 1.]
assert abs(moment(x, order=3)) > 1.0          # non-degenerate (= -9.0)
ok = impose_moment(2., x, order=3, skew=False)
assert abs(moment(ok, order=3) - 2.) < 1e-9 and abs(mean(ok) - mean(x)) < 1e-9
y = impose_moment(2., x, order=3)             # default (skew=None -> True)
print('default result', y)
assert not np.isnan(y).any(), "impose_moment(2, [3,-3,1,1], order=3) gave NaN"
assert abs(moment(y, order=3) - 2.) < 1e-9 and abs(mean(y) - mean(x)) < 1e-9
print('ok')
