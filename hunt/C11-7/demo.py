"""C11 hunt 7: a 'where'-format weight mask given as a list ([[measures],[indices]], accepted by
collapse_weight and filtered correctly) cannot be grown: update_mask raises TypeError, so the
collapse can never be recorded in the termination's mask."""
import numpy as np
from mystic.monitors import Monitor
from mystic.solvers import NelderMeadSimplexSolver
import mystic.collapse as ct
import mystic.mask as ma
import mystic.termination as mt

npts = (2, 2)
x = [0.0, 1.0,  3.0, 4.0,   0.0, 1.0,  5.0, 6.0]     # weight 0 of both measures is 0
m = Monitor(); m._npts = npts
for i in range(8): m(list(x), 0.0)
solver = NelderMeadSimplexSolver(8)
solver.SetInitialPoints(x)
solver.SetGenerationMonitor(m)

failures = []
for name, seed in (('tuple where-mask', ((0,), (0,))), ('list where-mask', [[0], [0]])):
    # detector: (0,0) is masked, (1,0) is new
    got = ct.collapse_weight(m, tolerance=0.005, generations=5, mask=seed)
    assert set(zip(*got)) == {(1, 0)}, got
    term = mt.CollapseWeight(tolerance=0.005, generations=5, mask=seed)
    collapse = ct.collapsed(term(solver, True))
    try:
        _term = ma.update_mask(term, collapse)
    except Exception as e:
        failures.append("%s: update_mask raised %s: %s" % (name, type(e).__name__, e))
        continue
    new = ma.get_mask(_term)
    print(name, "->", new)
    if set(zip(*new)) != {(0, 0), (1, 0)}:
        failures.append("%s: mask did not grow by the collapse: %s" % (name, new))
    if ct.collapsed(_term(solver, True)):
        failures.append("%s: collapse reported again" % name)

for f in failures: print("VIOLATION:", f)
assert not failures, "%d violation(s)" % len(failures)
print("OK")
