"""impose_bounds with several intervals and nearest=True: the clip limits are the nearest *lower* end and
the nearest *upper* end taken independently, which can belong to different intervals; the value then goes
to an interval end that is not the nearest one (the docstring's own example is not reproduced)."""
from mystic.constraints import impose_bounds

identity = lambda x: x
ivals = [(0, 5), (7, 10)]
x = [0.123, 1.244, -4.755, 10.731, 6.207]
y = list(impose_bounds(ivals)(identity)(list(x)))
print(y)
ends = [e for iv in ivals for e in iv]
for xi, yi in zip(x, y):
    inside = any(lo <= xi <= hi for lo, hi in ivals)
    if inside:
        assert yi == xi
    else:
        assert yi in ends                                  # the literal statement of C16: holds
        nearest = min(ends, key=lambda e: abs(e - xi))
        assert yi == nearest, ('x=%s clipped to %s, nearest end is %s' % (xi, yi, nearest))
