"""C04 hunt 5: Powell's step-monitor record for generation k is not the best
(x, energy) the solver reported at the end of generation k (to the callback, as
bestEnergy, and as energy_history[k]); it is rewritten during generation k+1."""
import numpy as np
from mystic.solvers import PowellDirectionalSolver
from mystic.monitors import Monitor
from mystic.termination import VTR

def rosen(x):
    x = np.asarray(x, dtype=float)
    return float(np.sum(100.0*(x[1:]-x[:-1]**2)**2 + (1-x[:-1])**2))

solver = PowellDirectionalSolver(3)
solver.SetInitialPoints([0.8, 1.2, 0.7])
stepmon = Monitor()
solver.SetGenerationMonitor(stepmon)
solver.SetTermination(VTR(1e-14))
solver.SetEvaluationLimits(generations=30)

seen = []      # (x, bestEnergy) handed to / visible in the callback, per iteration
hist = []      # energy_history[k] as observed right after generation k
def cb(xk):
    seen.append(([float(i) for i in xk], float(solver.bestEnergy)))
msg = None
while not msg:
    msg = solver.Step(rosen, callback=cb)
    hist.append(float(solver.energy_history[-1]))

assert solver.Terminated()
assert len(stepmon) == solver.generations + 1 == len(seen) == len(hist)
final_hist = [float(e) for e in solver.energy_history]
diff = []
for k, (x, e) in enumerate(seen):
    rec = ([float(i) for i in stepmon.x[k]], float(stepmon.y[k]))
    if rec != (x, e):
        diff.append(k)
        print("generation %2d: callback/bestEnergy %.6e   step monitor %.6e   energy_history[k] then %.6e, now %.6e"
              % (k, e, rec[1], hist[k], final_hist[k]))
assert hist == final_hist, "energy_history entries were rewritten after they were reported"
assert not diff, "step-monitor records differ from the per-generation best given to the callback at %s" % diff
print("OK")
