"""C13 hunt 7: the documented tuple-of-strings form of generate_solvers parses each
string on its own, so the 'xi >= f' solver never learns about 'xi != f' and puts
xi exactly on the excluded value."""
import warnings; warnings.simplefilter('ignore')
from mystic.symbolic import generate_solvers, generate_constraint

def run(constraints, x):
    return list(generate_constraint(generate_solvers(constraints, nvars=1))(list(x)))

# one multi-line string: both relations hold
y = run('x0 >= 1\nx0 != 1', [0.])
assert y[0] >= 1 and y[0] != 1, y
# the same two relations as a tuple of strings ("Alternately, constraints may be
# a tuple of strings of symbolic constraints")
y = run(('x0 >= 1', 'x0 != 1'), [0.])
assert y[0] >= 1, y
assert y[0] != 1, "('x0 >= 1', 'x0 != 1') on [0.0] returned %s" % y
print('ok')
