# C12 hunt 1: a contradictory equality whose variables cancel is rewritten to '' (always true)
import os, sys, random
sys.path.insert(0, os.path.dirname(os.path.abspath(__file__)))
from fractions import Fraction as F
from evalref import holds
from mystic.symbolic import simplify

systems = ['x0 = x0 + 3',                    # no solution
           'x0 - x1 = 0\n0*x1 - 2 = -4',      # second line is -2 = -4: no solution
           '2*x0 - x1 <= 4\nx0 + x1 = x0 + x1 + 1']
grid = [F(i, 2) for i in range(-6, 7)]
bad = []
for s in systems:
    random.seed(0)
    try:
        res = simplify(s, all=True)
    except Exception as e:      # no result returned -> nothing to check
        print('raised', repr(e)); continue
    for a in grid:
        for b in grid:
            p = {'x0': a, 'x1': b}
            if holds(s, p) != holds(res, p):
                bad.append((s, res, p)); break
        else: continue
        break
for s, res, p in bad:
    print('input %r\n  -> result %r\n  differ at %s (input %s, result %s)' % (s, res, p, holds(s, p), holds(res, p)))
assert not bad, 'simplify returned a result with a different solution set'
print('ok')
