"""C20 hunt 10: cost scaling by k is not transparent for most k: the monitor stores y*k and
returns (y*k)/k, which is not y in floating point (rounding for k that is not a power of two,
overflow/underflow for large/small values)."""
import os, tempfile
from mystic.monitors import Monitor, LoggingMonitor
from mystic.munge import logfile_reader

failures = []
cases = [(0.1, 3.0),          # (3.0*0.1)/0.1 = 3.0000000000000004
         (3, 0.1),            # rounding
         (-7.0, 1.1),
         (2, 1e308),          # overflow: inf
         (-1, 1e308),         # (fine)
         (0.5, 5e-324),       # underflow: 0.0
         (1e-3, 123.456)]
for k, y in cases:
    mon = Monitor(k=k)
    mon([1.0, 2.0], y)
    mon([1.0, 2.0], [y, 1.0])
    if not (mon.y[0] == y and mon.y[1] == [y, 1.0]):
        failures.append('Monitor(k=%r): recorded cost %r, returned %r and %r' % (k, y, mon.y[0], mon.y[1]))

# the same value ends up in the log file
log = os.path.join(tempfile.mkdtemp(), 'log.txt')
lm = LoggingMonitor(1, log, new=True, k=0.1)
lm([1.0, 2.0], 3.0)
cost = logfile_reader(log)[1]
if cost != [3.0]: failures.append('LoggingMonitor(k=0.1): recorded 3.0, log gives %r' % cost)

# and an exact k stays exact (holds)
for k in (None, 1, -1, 2, 0.5, -4):
    mon = Monitor(k=k); mon([1.0], 0.1); mon([1.0], 3.0)
    assert mon.y == [0.1, 3.0], (k, mon.y)

for msg in failures: print(msg)
assert not failures, "k is not transparent"
print('ok')
