# C12 hunt 5 (precision, borderline): float coefficients are rounded to 15 significant digits in the
# output text (and a small constant next to a huge one is absorbed), so the boundary moves
import os, sys, random
sys.path.insert(0, os.path.dirname(os.path.abspath(__file__)))
from fractions import Fraction as F
from evalref import holds
from mystic.symbolic import simplify

def fl(case, p):
    "the same check in ordinary double arithmetic (python's own interpreter)"
    ok = True
    for line in case.split('\n'):
        if line.strip(): ok = ok and eval(line, {}, dict(p))
    return ok
cases = [('3*x0 <= 1.0',             [{'x0': 0.3333333333333333}]),          # nearest double to 1/3: 3*x0 == 1.0
         ('3*x0 + x1 > -5.0',        [{'x0': -5/3., 'x1': 0.0}]),              # rounded the other way
         ('1e-06*x0 + 1e+20*x1 + 1e+20 <= -1.0', [{'x0': -1.0, 'x1': -1.0}])]  # '-1.0' is lost next to 1e20
bad = []
for s, pts in cases:
    random.seed(0)
    res = simplify(s)
    assert isinstance(res, str), res
    for p in pts:
        exact = dict((k, F(v)) for k, v in p.items())
        if holds(s, exact) != holds(res, exact) and fl(s.replace(' = ', ' == '), p) != fl(res.replace(' = ', ' == '), p):
            bad.append((s, res, p, holds(s, exact), holds(res, exact)))
for b in bad: print('input %r -> %r\n  differ at %s: input %s, result %s (both in exact and in double arithmetic)' % b)
assert not bad, 'result has a different solution set'
print('ok')
