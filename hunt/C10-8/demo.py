"""CandidateRelativeTolerance with a one-member population: ignores `info`, and what it returns is not a condition."""
import io, contextlib
from mystic.solvers import PowellDirectionalSolver
from mystic.termination import CandidateRelativeTolerance as CRT, VTR, And, Or, state

solver = PowellDirectionalSolver(2)         # nPop == 1
solver.SetInitialPoints([1., 1.])
solver.energy_history = [3.0]               # VTR() not satisfied
assert len(solver.population) == 1

crt, vtr = CRT(), VTR()
buf = io.StringIO()
with contextlib.redirect_stdout(buf):
    plain = crt(solver)
    tree = Or(crt, vtr)
    msg = tree(solver, info=True)
    sat = bool(tree(solver))
print("crt(solver) ->", repr(plain)); print("Or(crt,vtr)(solver, info=True) ->", repr(msg))

known = set(state(tree))                    # the docs of the member conditions
named = set(msg.split("; ")) if msg else set()
# whatever truth value one assigns to the (vacuous) inequality, the info returned for a satisfied
# compound must name member conditions, and info=False must give a plain truth value
assert named <= known, "info names something that is not a member condition: %s" % (named - known)
assert isinstance(plain, bool) or plain in (0, 1), "info=False returned %r" % (plain,)
print("ok")
