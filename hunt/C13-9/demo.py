"""C13 hunt 9: the blind 'var(' -> 'variance(' rename also hits numpy functions whose
name merely ends in 'var', e.g. nanvar(."""
import warnings; warnings.simplefilter('ignore')
import numpy as np
from mystic.symbolic import generate_solvers, generate_constraint

def run(text, x):
    return list(generate_constraint(generate_solvers(text, nvars=len(x)))(list(x)))

assert run('x0 = var([x1,x2])', [0., 1., 2.])[0] == np.var([1., 2.])
assert run('x0 = nanmean([x1,x2])', [0., 1., 2.])[0] == 1.5
try:
    y = run('x0 = nanvar([x1,x2])', [0., 1., 2.])
except Exception as e:
    raise AssertionError("'x0 = nanvar([x1,x2])': %s: %s" % (type(e).__name__, e))
assert y == [np.nanvar([1., 2.]), 1., 2.], y
print('ok')
