"""C13 hunt 5: ndarray inputs whose dtype is not float64: the new value of xi is
cast on item assignment, so the relation does not hold in the output
(int64: truncated below the bound; float32: strictness rounded away)."""
import warnings; warnings.simplefilter('ignore')
import numpy as np
from mystic.symbolic import generate_solvers, generate_constraint
from mystic.constraints import boundsconstrain

failures = []
def report(msg): failures.append(msg)

# reference: list-of-int and float64-array inputs are fine
c = generate_constraint(generate_solvers('x0 >= 0.5', nvars=2))
assert list(c([0, 5]))[0] >= 0.5
assert c(np.array([0., 5.]))[0] >= 0.5

# (a) integer ndarray, non-strict relation with a non-integer bound
y = c(np.array([0, 5]))
if not (y[0] >= 0.5): report("'x0 >= 0.5' on int array [0 5] returned %s" % (y,))

# (b) symbolic bounds constraint (default symbolic=True), integer ndarray
b = boundsconstrain([0.5, 0.5], [1.5, 1.5])
y = b(np.array([0, 3]))
if not (0.5 <= y[0] <= 1.5 and 0.5 <= y[1] <= 1.5): report("bounds [.5,1.5] on int array [0 3] returned %s" % (y,))

# (c) float32 ndarray, strict relation
c = generate_constraint(generate_solvers('x0 > x1', nvars=2))
y = c(np.array([0., 1.], dtype='float32'))
if not (y[0] > y[1]): report("'x0 > x1' on float32 array [0 1] returned %s" % (y,))

# (d) '!=' on an integer ndarray
c = generate_constraint(generate_solvers('x0 != x1', nvars=2))
y = c(np.array([3, 3]))
if not (y[0] != y[1]): report("'x0 != x1' on int array [3 3] returned %s" % (y,))

assert not failures, '\n'.join(failures)
print('ok')
