"""C06 hunt #3: a deep copy of a solver shares its penalty (and constraints,
termination) function objects with the original, although the copy's live,
decorated cost holds a private copy of them.  With one of mystic's own iterated
penalties (mystic.penalty.*, state advanced with penalty.iter()) advancing the
copy changes the original, and the copy does not follow the uninterrupted run.

Run:  PYTHONPATH=/tmp/wt/C06 /venv/bin/python /tmp/wt/C06/_hunt/3/demo.py
exit 0 = property holds, exit 1 (AssertionError) = violated.
"""
import copy
import numpy as np
from mystic.solvers import NelderMeadSimplexSolver
from mystic.penalty import quadratic_inequality
from mystic.termination import VTR
from mystic.monitors import Monitor
from mystic.models import rosen

def make():
    @quadratic_inequality(lambda x: x[0] - 0.5, k=10., h=5)   # x0 <= 0.5
    def penalty(x): return 0.0
    s = NelderMeadSimplexSolver(2)
    s.SetInitialPoints([0.8, 1.2])
    s.SetEvaluationMonitor(Monitor()); s.SetGenerationMonitor(Monitor())
    s.SetPenalty(penalty)
    s.SetObjective(rosen)
    s.SetTermination(VTR(1e-12))
    return s

def advance(s):
    "one outer iteration: a generation, then stiffen the solver's penalty"
    s.Step()
    s._penalty.iter()

def observe(s):
    f = lambda a: np.asarray(a, dtype=float).tolist()
    return dict(population=f(s.population), popEnergy=f(s.popEnergy),
                bestEnergy=float(s.bestEnergy), evaluations=s.evaluations,
                stepmon_y=f(s._stepmon.y), evalmon_y=f(s._evalmon.y))

N, K = 8, 4
ref = make()                       # the uninterrupted run
for i in range(N): advance(ref)
ref = observe(ref)

s = make()
for i in range(K): advance(s)
c = copy.deepcopy(s)               # copy after generation K
for i in range(K, N): advance(c)   # advance only the copy ...
for i in range(K, N): advance(s)   # ... and only afterwards the original
dc = [k for k in ref if ref[k] != observe(c)[k]]
ds = [k for k in ref if ref[k] != observe(s)[k]]
if dc: print("the advanced deep copy differs from the uninterrupted run in", dc)
if ds: print("the original, advanced after its copy was advanced, differs from the uninterrupted run in", ds)
assert not ds, "advancing the deep copy changed the original"
assert not dc, "the deep copy did not continue like the uninterrupted run"
print("ok")
