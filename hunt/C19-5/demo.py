"""impose_measure(npts, ...) round-trips a parameter vector through
product_measure.load / flatten.  With nothing to collapse, the vector that
reaches the wrapped function must be the vector that was passed in - also when
it is a scenario vector (weights, positions, then one value per product point).
"""
from mystic.constraints import impose_measure
from mystic.math.discrete import compose, scenario

npts = (3, 2)
s = scenario(compose([[1., 2., 3.], [4., 5.]], [[.2, .3, .5], [.4, .6]]),
             [10., 20., 30., 40., 50., 60.])
x = s.flatten(all=True)                 # 10 measure parameters + 6 values
assert len(x) == 16

@impose_measure(npts)                   # no collapses at all
def constrain(x):
    return x

y = constrain(x)
assert len(y) == len(x), "vector of length %d came back with length %d" % (len(x), len(y))
assert list(y) == x

# ... and the result must still load as the same scenario
t = scenario().load(y, npts)
assert t.values == s.values
print("ok")
