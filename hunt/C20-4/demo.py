"""C20 hunt 4: a parameter file that is written, read, overwritten with another
trajectory and read again gives back the FIRST trajectory: the readers import the
file as a module, and python re-uses the byte-code it cached for the first version
(the cache is validated by size and whole-second mtime only).

NOTE: byte-code caching is python's default behaviour.  The harness environment
sets PYTHONDONTWRITEBYTECODE=1, which hides the defect, so python's default is
restored explicitly below."""
import sys
sys.dont_write_bytecode = False      # python's default setting

import os, tempfile
from mystic.monitors import Monitor
from mystic.munge import (write_raw_file, read_raw_file, write_support_file,
                          read_support_file, write_converge_file, read_converge_file)

def history(offset):
    m = Monitor()
    m([1.0 + offset, 2.0], 3.0)
    m([4.0, 5.0 + offset], 6.0 + offset)
    return m

def raw_x(p): return p
def support_x(p): return [list(i) for i in zip(*p[0])]       # params[cand][par][iter]
def converge_x(p): return [list(i[0]) for i in p]            # params[iter][cand] -> (pars)

d = tempfile.mkdtemp()   # a single directory, so that hunt 3 does not interfere
failures = []
for name, write, read, getx in [('raw.py', write_raw_file, read_raw_file, raw_x),
                    ('support.py', write_support_file, read_support_file, support_x),
                    ('converge.py', write_converge_file, read_converge_file, converge_x)]:
    f = os.path.join(d, name)
    # a few attempts, so that a tick of the clock between the two writes
    # (which invalidates the cache by accident) cannot mask the defect
    for attempt in range(5):
        first, second = history(2*attempt), history(2*attempt + 1)
        write(first, f)
        p, c = read(f)
        assert getx(p) == first.x and c == first.y, (name, p, c)   # (holds)
        write(second, f)          # same length of text, another trajectory
        p, c = read(f)
        if not (getx(p) == second.x and c == second.y):
            failures.append('%s: re-written with %r %r, read back %r %r'
                            % (read.__name__, second.x, second.y, getx(p), c))
            break

for msg in failures: print(msg)
assert not failures, "a re-written parameter file is read back as the old trajectory"
print('ok')
