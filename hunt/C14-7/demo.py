"""C14 hunt 7 (borderline): measure-type left-hand sides (sum/spread/variance/
product) cannot be imposed at degenerate points, so the constraints function
returns a point (zeros / nan) whose penalty is not zero."""
import warnings, math
from mystic.symbolic import (generate_solvers, generate_constraint,
                             generate_conditions, generate_penalty)
warnings.simplefilter('ignore')
fails = []
for text, x in [("sum([x0,x1,x2]) = 5", [1., -1., 0.]),       # current sum is 0
                ("sum([x0,x1,x2]) >= 5", [1., -1., 0.]),
                ("spread([x0,x1,x2]) = 5", [1., 1., 1.]),      # current spread is 0
                ("variance([x0,x1,x2]) = 5", [2., 2., 2.]),    # current variance is 0
                ("prod([x0,x1,x2]) = 5", [2., 0., 3.])]:       # current product is 0
    p = generate_penalty(generate_conditions(text))
    y = generate_constraint(generate_solvers(text))(list(x))
    v = p(y)
    print(repr(text), x, '->', [float(i) for i in y], 'penalty', v)
    if not (v == v and abs(v) < 1e-20): fails.append((text, x, v))
assert not fails, fails
