"""C13 hunt 8: a point that already satisfies a strict relation, but lies within
the tolerance of the boundary, is moved (statement: "equals the input whenever the
input already satisfies the relation")."""
import warnings; warnings.simplefilter('ignore')
import numpy as np
from mystic.symbolic import generate_solvers, generate_constraint

def check(text, x, holds):
    c = generate_constraint(generate_solvers(text, nvars=len(x)))
    x0 = list(x)
    assert holds(x0)                      # input already satisfies the relation
    y = list(c(list(x)))
    assert holds(y), (text, x0, y)
    assert y == x0, "%r: feasible input %r was changed to %r" % (text, x0, y)

check('x0 > 0', [1.0], lambda v: v[0] > 0)                 # well inside: unchanged
check('x0 > 0', [1e-16], lambda v: v[0] > 0)               # 1e-16 > 0 holds, but -> 1e-15
check('x0 < x1', [float(np.nextafter(1e300, -np.inf)), 1e300], lambda v: v[0] < v[1])
print('ok')
