"""C09 / hunt 6: with an unbounded (or half-bounded) strict range the members are
started at nan / inf instead of at a point inside the ranges.

Exits 0 if every member's first evaluated point is finite and inside the strict
ranges; exits 1 otherwise.
"""
import math, warnings
import numpy as np
from mystic.solvers import LatticeSolver, BuckshotSolver, SparsitySolver
from mystic.monitors import Monitor
from mystic.tools import random_seed
warnings.simplefilter('ignore')
inf = float('inf')

def cost(x):
    return float(sum((np.asarray(x) - 0.3)**2))

bad = []
for cls, arg in ((LatticeSolver, [2, 1]), (BuckshotSolver, 2), (SparsitySolver, 2)):
    for lb, ub in (([0, 0], [inf, 1]),        # x0 >= 0   (one-sided bound)
                   ([-inf, 0], [0, 1]),       # x0 <= 0
                   ([-inf, 0], [inf, 1])):    # x0 free
        random_seed(123)
        s = cls(2, arg)
        s.SetStrictRanges(list(lb), list(ub))
        s.SetEvaluationMonitor(Monitor())
        s.SetEvaluationLimits(generations=10)
        s.Solve(cost, disp=0)
        firsts = [list(map(float, m._evalmon._x[0])) for m in s._allSolvers]
        ok = all(all(math.isfinite(v) and l <= v <= u for v, l, u in zip(f, lb, ub)) for f in firsts)
        print("%-15s lb=%s ub=%s first points=%s -> best %r at %s"
              % (cls.__name__, lb, ub, firsts, float(s.bestEnergy), list(s.bestSolution)))
        if not ok: bad.append((cls.__name__, lb, ub))
assert not bad, "members started at nan/inf: %s" % bad
print("OK")
