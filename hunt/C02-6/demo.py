"""C02 hunt 6 (borderline): registering the objective probes it at the origin.

AbstractSolver.SetObjective validates the cost with klepto.isvalid(cost, [0]*nDim);
for a callable whose signature cannot be introspected (builtins, numpy
dispatcher functions, functools.partial of those) klepto falls back to actually
*calling* cost([0,...,0]) - also when strict ranges that exclude the origin have
already been set.

exit 0 if the property holds, exit 1 (AssertionError) otherwise.
"""
import functools, warnings
warnings.filterwarnings('ignore')
import numpy as np
from mystic.solvers import NelderMeadSimplexSolver
from mystic.tools import random_seed

lo, hi = np.array([1.0, 1.0]), np.array([2.0, 2.0])
outside = []
def model(x):                                   # the user's python code
    x = np.asarray(x, dtype=float)
    if not np.all((x >= lo) & (x <= hi)): outside.append(list(x))
    return float(np.sum((x - 0.3)**2))

# a cost whose outermost callable is not a pure-python function
cost = functools.partial(np.apply_along_axis, model, 0)
assert abs(cost([1.0, 1.0]) - 0.98) < 1e-12 and not outside

random_seed(0)
solver = NelderMeadSimplexSolver(2)
solver.SetInitialPoints([1.5, 1.5])
solver.SetStrictRanges(list(lo), list(hi))      # strict ranges are set first
solver.SetEvaluationLimits(50, 500)
solver.Solve(cost)

for x in outside:
    print("VIOLATION: cost called at %s, outside [1,2]^2" % x)
assert not outside, "cost evaluated outside the strict box"
print("ok")
