"""C09 / hunt 5: SparsitySolver._InitialPoints appends the generation monitor's
points to the evaluation monitor's x-list in place, so the evaluation log handed
to every member (and the user's own monitor) is no longer a list of (x, f(x))
pairs: the work log of each member is shifted.

Exits 0 if, after the solve, every member's evaluation monitor pairs each x with
its own cost; exits 1 otherwise.
"""
import numpy as np
from mystic.solvers import SparsitySolver, NelderMeadSimplexSolver
from mystic.monitors import Monitor
from mystic.tools import random_seed

def cost(x):
    return float(sum((np.asarray(x) - 0.3)**2))

random_seed(123)
# legacy data, given the documented way: through the monitors
evalmon, stepmon = Monitor(), Monitor()
for p in ([0.1, 0.1], [0.9, 0.9], [0.5, 0.5]):
    evalmon(p, cost(p))
for p in ([0.2, 0.8], [0.8, 0.2]):
    stepmon(p, cost(p))

s = SparsitySolver(2, 3)
s.SetNestedSolver(NelderMeadSimplexSolver)
s.SetStrictRanges([0, 0], [1, 1])
s.SetEvaluationMonitor(evalmon)
s.SetGenerationMonitor(stepmon)
s.SetEvaluationLimits(generations=20)
s.Solve(cost, disp=0)

print("user's evaluation monitor: %d x, %d y" % (len(evalmon._x), len(evalmon._y)))
bad = 0
for m in s._allSolvers:
    em = m._evalmon
    nx, ny = len(em._x), len(em._y)
    wrong = sum(1 for x, y in zip(em._x, em._y) if abs(cost(x) - y) > 1e-12)
    print("member %s: evaluations=%d, evalmon has %d x / %d y, %d (x,y) pairs with y != cost(x)"
          % (m.id, m.evaluations, nx, ny, wrong))
    if nx != ny or wrong: bad += 1
assert len(evalmon._x) == len(evalmon._y), "the user's evaluation monitor was corrupted"
assert not bad, "members' evaluation logs are not (x, cost(x)) pairs"
print("OK")
