"""C15: a violated condition adds a strictly positive amount (the documented
expression).  For the lagrange types with an infinitely violated condition
(condition returns +inf, e.g. numpy 1/0 or a user 'invalid region' marker) the
documented expression pk*f**2 + lam*f is +inf; the code returns nan."""
import math
from mystic import penalty as mp

inf = float('inf')
bad = []
for t in ['quadratic_equality', 'linear_equality', 'uniform_equality',
          'uniform_inequality', 'quadratic_inequality', 'linear_inequality',
          'barrier_inequality', 'lagrange_equality', 'lagrange_inequality']:
    p = getattr(mp, t)(lambda x: x[0])(lambda x: 1.5)
    for n in (0, 1, 2):
        p.clear()
        for i in range(n):
            p.iter()                      # no stored history: multipliers are 0
        y = p([inf])
        if not (y == inf):
            bad.append((t, n, y))
        assert p.error([inf]) == inf
for b in bad:
    print("infinite violation, penalty not +inf:", b)
assert not bad
print("ok")
