"""C11 hunt 6: collapse_cost accepts a mask of the form {None: bounds} ("these bounds for every
parameter"; the validation code has an explicit branch for it), but the mask is not applied to the
parameters at all, and the detector's output is then something it rejects as a mask itself."""
import numpy as np
from mystic.monitors import Monitor
import mystic.collapse as ct
from mystic.constraints import impose_bounds

xs = [0.1*i for i in range(30)]
ys = [0.]*5 + [10.]*20 + [0.]*5
m = Monitor()
for x, y in zip(xs, ys): m([x, -x], y)      # two parameters

failures = []
kw = dict(clip=False, limit=1.0, samples=10)
free = ct.collapse_cost(m, **kw)                         # no mask
ref  = ct.collapse_cost(m, mask={0: (0., 1.), 1: (0., 1.)}, **kw)   # same bounds, spelled per index
got  = ct.collapse_cost(m, mask={None: (0., 1.)}, **kw)
print("no mask      :", free)
print("{0:b, 1:b}   :", ref)
print("{None: b}    :", got)

# "the intersection of bounds and mask is returned": every reported interval lies inside the mask bounds
for k, v in got.items():
    for (lo, hi) in v:
        if lo < 0. or hi > 1.:
            failures.append("mask {None:(0,1)}: reported interval %s for parameter %s is not inside the mask" % ((float(lo), float(hi)), k))
            break
# the output must be usable as a mask, and yield nothing new
try:
    again = ct.collapse_cost(m, mask=got, **kw)
    if again: failures.append("own output as mask yields %s" % (again,))
except Exception as e:
    failures.append("own output %s is rejected as mask: %s: %s" % (got, type(e).__name__, e))
# ... and applicable by a solver (abstract_solver.__collapse_constraints -> impose_bounds(collapse))
try:
    impose_bounds(got)
except Exception as e:
    failures.append("impose_bounds(output) raises %s: %s" % (type(e).__name__, e))

for f in failures: print("VIOLATION:", f)
assert not failures, "%d violation(s)" % len(failures)
print("OK")
