"""constraints.or_ (and and_) keep the objects returned by members in their history
without copying; a member that returns the same (re-used) list object each call makes
every history entry compare equal -> success is claimed far from any fixed point."""
from mystic.constraints import or_

_buf = [0.0]
def inc(x):                 # x -> x + 1, no fixed point; re-uses its output buffer
    _buf[0] = x[0] + 1.0
    return _buf

fired = []
f = or_(inc, onexit=lambda x: (fired.append('exit'), x)[1],
             onfail=lambda x: (fired.append('fail'), x)[1])
r = f([0.0])                # deterministic: returns before any call to random
assert len(fired) == 1
if fired[0] == 'exit':
    assert list(inc(list(r))) == list(r), \
        "or_ reported success at %r but its only member maps it to %r" % (r, list(inc(list(r))))
print("ok")
