"""C01 hunt #4: the penalty in force changes between iterations
(SetPenalty between two Steps / before a second Solve).  Stored energies are
never refreshed, so the reported energy is cost + OLD penalty, not
cost + the active penalty, at every later iteration boundary and at the end.
"""
import random
import numpy as np
from mystic.solvers import (NelderMeadSimplexSolver, PowellDirectionalSolver,
                            DifferentialEvolutionSolver, DifferentialEvolutionSolver2)
from mystic.termination import ChangeOverGeneration

def f(x):
    x = np.asarray(x, dtype=float)
    return float(np.sum((x - 1.5)**2))

def penalty(x):                      # sum(x) == 1 wanted
    return 100.0*abs(float(sum(x)) - 1.0)

failures = []
for S in (NelderMeadSimplexSolver, PowellDirectionalSolver,
          DifferentialEvolutionSolver, DifferentialEvolutionSolver2):
    random.seed(3); np.random.seed(3)
    calls = {}
    def cost(x, calls=calls):
        y = f(x); calls[tuple(float(i) for i in x)] = y; return y
    solver = S(2, 8) if 'Differential' in S.__name__ else S(2)
    solver.SetInitialPoints([0.5, 0.5])
    solver.SetEvaluationLimits(400, 50000)
    solver.SetTermination(ChangeOverGeneration(1e-12, 10))
    for i in range(12):              # a few unpenalised iterations
        solver.Step(cost)
    solver.SetPenalty(penalty)       # reconfigure between iterations
    bad = 0; n = 0
    while True:
        stop = solver.Step(); n += 1
        x, e = solver.bestSolution, float(solver.bestEnergy)
        k = tuple(float(i) for i in x)
        want = calls.get(k, f(x)) + penalty(k)
        if np.isfinite(e) and not np.isclose(want, e, rtol=1e-12, atol=0): bad += 1
        if stop or n >= 400: break
    x, e = solver.bestSolution, float(solver.bestEnergy)
    want = f(x) + penalty(x)
    print("%-30s +%3d steps: bestSolution=%s bestEnergy=%.6g  cost+penalty there=%.6g  (bad boundaries: %d)"
          % (S.__name__, n, [round(float(i), 6) for i in x], e, want, bad))
    if bad or not np.isclose(want, e, rtol=1e-12, atol=0):
        failures.append(S.__name__)

assert not failures, failures
