"""C03 (borderline) / NelderMead keeps unconstrained vertices: only vertex 0 is
mapped through the constraints; the other vertices of solver.population
violate them, and popEnergy[i] is the energy of constraints(vertex i), not of
vertex i.  (With an in-place constraint and no strict ranges some of them are
constrained by side effect, so the state also depends on in-place vs pure.)"""
import numpy as np
from mystic.solvers import NelderMeadSimplexSolver

T = np.array([0.3, 1.7, 2.4])
def cost(x):
    x = np.asarray(x, dtype=float)
    return float(np.sum((x - T)**2))

def pure(x):
    y = [float(i) for i in x]; y[0] = 1.0
    return np.array(y) if isinstance(x, np.ndarray) else y
def inplace(x):
    x[0] = 1.0
    return x

bad = []
for c in (pure, inplace):
    for maxiter in (1, 3, 10, 40):
        s = NelderMeadSimplexSolver(3)
        s.SetInitialPoints([0.7, -1.3, 3.6])
        s.SetConstraints(c)
        s.SetEvaluationLimits(generations=maxiter)
        s.Solve(cost)
        # the reported solution is fine ...
        assert list(s.bestSolution)[0] == 1.0 and abs(cost(s.bestSolution) - s.bestEnergy) < 1e-12
        # ... but the rest of the population is not
        n = sum(1 for v in s.population if v[0] != 1.0)
        m = sum(1 for v, e in zip(s.population, s.popEnergy) if abs(cost(v) - e) > 1e-12)
        print(c.__name__, 'maxiter=%d' % maxiter, 'vertices violating x0 == 1: %d, with popEnergy != cost(vertex): %d' % (n, m))
        if n or m: bad.append((c.__name__, maxiter, n, m))

assert not bad, "population holds unconstrained vertices: %s" % bad
