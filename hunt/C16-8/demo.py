"""Empty input vector: discrete raises (integers/rounded/impose_bounds/sorting/... return []),
impose_unique raises for every non-list `seq`."""
from mystic.constraints import discrete, integers, rounded, impose_bounds, sorting, impose_unique

identity = lambda x: x
for dec in (integers(), rounded(2), impose_bounds((0, 1)), sorting(), impose_unique(range(3))):
    assert list(dec(identity)([])) == []
failures = []
for name, dec in (('discrete', discrete([1., 2.])), ('discrete idx', discrete([1., 2.], index=(0,))),
                  ('impose_unique()', impose_unique()), ('impose_unique(float)', impose_unique(float)),
                  ('impose_unique(dict)', impose_unique({'min': 0, 'max': 5}))):
    try:
        y = list(dec(identity)([]))
        assert y == []
    except Exception as e:
        print(name, 'raised', type(e).__name__, e)
        failures.append(name)
assert not failures, failures
