"""constraints.and_ claims success although a member still changes the result."""
from mystic.constraints import and_

def check(members, x0, **kw):
    fired = []
    f = and_(*members,
             onexit=lambda x: (fired.append('exit'), x)[1],
             onfail=lambda x: (fired.append('fail'), x)[1], **kw)
    r = f(x0)
    assert len(fired) == 1
    if fired[0] == 'exit':      # success claimed -> must be a common fixed point
        for c in members:
            assert list(c(list(r))) == list(r), \
                "and_ reported success at %r but member %s maps it to %r" % (r, c.__name__, c(list(r)))
    return r, fired[0]

def half(x):     # contraction towards 2.0; fixed point is [2.0, ...]
    return [i/2. + 1. for i in x]
def pos(x):      # x >= 0
    return [max(i, 0.) for i in x]
def inc(x):      # has no fixed point at all
    return [i + 1. for i in x]
def ident(x):
    return x

# no randomness is reached in any of these calls (no cycle is detected)
check([half, pos], [2.0])            # genuine fixed point: fine
check([half, pos], [10.0])           # returns [6.0] via onexit; half([6.0]) = [4.0]
check([pos, half], [10.0])           # same in the other order (success declared inside the loop)
check([inc], [0.0])                  # n = 1: always "success"
check([inc, ident], [0.0])           # inc has no fixed point, yet success
print("ok")
