"""C20 hunt 11: a parameter file whose name is also the name of any importable module
(standard library, site-packages, the script's directory, ...) cannot be read back: the
readers import the module of that name instead of the file.  'trace.py' - a natural name for
a trajectory file - silently gives (None, None)."""
import os, tempfile
from mystic.monitors import Monitor
from mystic.munge import write_raw_file, read_raw_file, write_support_file, read_support_file

mon = Monitor(); mon([1.0, 2.0], 3.0); mon([4.0, 5.0], 6.0)
d = tempfile.mkdtemp()
failures = []
for name in ('trajectory.py', 'trace.py', 'profile.py', 'test.py'):
    f = os.path.join(d, name)
    write_raw_file(mon, f)
    try:
        got = read_raw_file(f)
        if not (list(got) == [mon.x, mon.y]):
            failures.append('%s: read back %r' % (name, got))
    except Exception as e:
        failures.append('%s: %r' % (name, e))

for msg in failures: print(msg)
assert not failures, "parameter file shadowed by an installed module of the same name"
print('ok')
