"""C04 hunt 8: switching a solver back to a monitor it used earlier (quiet ->
verbose -> quiet again) duplicates the early records: generations, the energy
history and the evaluation monitor are all wrong afterwards."""
import io, contextlib
import numpy as np
from mystic.solvers import NelderMeadSimplexSolver
from mystic.monitors import Monitor, VerboseMonitor
from mystic.termination import VTR

calls = []
def rosen(x):
    x = np.asarray(x, dtype=float)
    y = float(np.sum(100.0*(x[1:]-x[:-1]**2)**2 + (1-x[:-1])**2))
    calls.append(([float(i) for i in x], y))
    return y

solver = NelderMeadSimplexSolver(3)
solver.SetInitialPoints([0.8, 1.2, 0.7])
solver.SetTermination(VTR(1e-12))
quiet, quiet_e = Monitor(), Monitor()            # plain, initially empty
loud, loud_e = VerboseMonitor(1), Monitor()      # verbose, initially empty
ncb = [0]
def cb(xk): ncb[0] += 1

solver.SetGenerationMonitor(quiet); solver.SetEvaluationMonitor(quiet_e)
for i in range(3): solver.Step(rosen, callback=cb)
with contextlib.redirect_stdout(io.StringIO()):  # look at two generations verbosely
    solver.SetGenerationMonitor(loud); solver.SetEvaluationMonitor(loud_e)
    for i in range(2): solver.Step(callback=cb)
assert solver.generations == 4 and solver.evaluations == len(calls) == len(loud_e)
solver.SetGenerationMonitor(quiet); solver.SetEvaluationMonitor(quiet_e)   # back to quiet

eh = [float(e) for e in solver.energy_history]
print("iterations completed:", ncb[0]-1, " generations:", solver.generations)
print("energy_history:", [round(e, 3) for e in eh], " bestEnergy:", round(float(solver.bestEnergy), 3))
print("cost calls:", len(calls), " evaluations:", solver.evaluations, " len(evaluation monitor):", len(quiet_e))
assert solver.generations == ncb[0]-1, "generations=%d, completed iterations=%d" % (solver.generations, ncb[0]-1)
assert all(eh[i] <= eh[i-1] for i in range(1, len(eh))), "energy history increases"
assert eh[-1] == float(solver.bestEnergy)
assert [([float(i) for i in x], float(y)) for x, y in zip(quiet_e.x, quiet_e.y)] == calls
print("OK")
