"""C09 / hunt 9: SetNestedSolver(cls, NP=n) stores NP on the solver *class*, so the
configuration of one ensemble leaks into the members of every later ensemble.

Exits 0 if the members of an ensemble configured without NP have the nested
solver's default population size regardless of what another ensemble asked for;
exits 1 otherwise.
"""
import numpy as np
from mystic.solvers import LatticeSolver, DifferentialEvolutionSolver as DE
from mystic.tools import random_seed

def cost(x):
    return float(sum((np.asarray(x) - 0.3)**2))

def members_npop():
    random_seed(123)
    b = LatticeSolver(2, [2, 1])
    b.SetNestedSolver(DE)                 # no NP requested
    b.SetStrictRanges([0, 0], [1, 1])
    b.SetEvaluationLimits(generations=2)
    b.Solve(cost, disp=0)
    return [m.nPop for m in b._allSolvers], b._total_evals

before = members_npop()
other = LatticeSolver(2, [2, 1])
other.SetNestedSolver(DE, NP=7)           # a different ensemble, never even solved
after = members_npop()
print("members' nPop / total evals before:", before, " after another ensemble used NP=7:", after)
assert after == before, "nested-solver configuration leaked between ensembles"
print("OK")
