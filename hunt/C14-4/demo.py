"""C14 hunt 4: the constraint built from generate_solvers applies the lines in
text order in a single pass, so the docstring's own example system is left
violated: penalty(constraint(x)) != 0."""
from mystic.symbolic import (generate_solvers, generate_constraint,
                             generate_conditions, generate_penalty)
fails = []
def run(text, x, **kw):
    c = generate_constraint(generate_solvers(text, **kw))
    p = generate_penalty(generate_conditions(text, **kw))
    y = c(list(x)); v = p(y)
    print(repr(text), x, '->', y, 'penalty', v)
    if not abs(v) <= 1e-20: fails.append((text, x, y, v))

# example 1 of the generate_constraint docstring (documented result [1.5838.., 2.0, 1.0])
run("x0 = cos(x1) + 2.\nx1 = x2*2.", [1.0, 0.0, 1.0])
# example 2 of the generate_constraint docstring (documented result [0.0, 2, 0.0])
run("x2 = x0/2.\nx0 >= 0.", [-1, 2, -3], nvars=3)
# plain inequalities
run("x0 <= x1\nx1 <= 1", [5., 5.])
assert not fails, fails
