"""C04 hunt 2: SetGenerationMonitor(monitor, new=True) on a running solver
restarts "generation 0": the generation counter forgets the iterations already
made, and DifferentialEvolutionSolver's reported best energy gets WORSE."""
import numpy as np
from mystic.solvers import DifferentialEvolutionSolver
from mystic.monitors import Monitor
from mystic.termination import VTR
from mystic.tools import random_seed

def rosen(x):
    x = np.asarray(x, dtype=float)
    return float(np.sum(100.0*(x[1:]-x[:-1]**2)**2 + (1-x[:-1])**2))

random_seed(3)
solver = DifferentialEvolutionSolver(3, 6)
solver.SetRandomInitialPoints([-2]*3, [2]*3)
solver.SetTermination(VTR(1e-12))
ncb = [0]
def cb(xk): ncb[0] += 1

best = []            # reported best energy after every API call
for i in range(6):   # generation 0 + 5 iterations
    solver.Step(rosen, callback=cb); best.append(float(solver.bestEnergy))
assert solver.generations == 5 and ncb[0] == 6

# swap in a new (empty, plain) step monitor, discarding the old records
solver.SetGenerationMonitor(Monitor(), new=True)
best.append(float(solver.bestEnergy))
for i in range(3):
    solver.Step(callback=cb); best.append(float(solver.bestEnergy))

print("reported best energy after each call:", [round(b, 4) for b in best])
print("iterations completed (callbacks - 1):", ncb[0] - 1)
print("solver.generations                  :", solver.generations)

# (a) best-so-far never worsens
worse = [(i, best[i-1], best[i]) for i in range(1, len(best)) if best[i] > best[i-1]]
assert not worse, "reported best energy worsened: %s" % worse
# (b) generation counter == completed iterations (9 Steps => 8 iterations;
#     even counting the forced re-initialisation as a non-iteration gives 7)
assert solver.generations in (ncb[0] - 1, ncb[0] - 2), \
    "generations=%d but %d iterations were completed" % (solver.generations, ncb[0]-1)
print("OK")
