"""C08 / fmin_powell (and fmin, diffev): the solvers derive their algorithmic state
("is this generation 0?", iteration count, stop test history) from the length/content of
the generation monitor.  Passing a monitor that already holds data (e.g. re-using one
`itermon` to collect the trace of two successive minimisations) makes fmin_powell
return the *starting point* with fopt=inf, after ZERO function evaluations, with
warnflag 0 -- instead of running Powell's method.

Property checked: the logger must not change the optimisation; fmin_powell(x1) with a
used monitor must give the same (xopt, fopt, iter, funcalls) as with a fresh one
(which in turn follows Powell's method step for step).
"""
import numpy as np
from mystic.solvers import fmin_powell
from mystic.monitors import Monitor
from mystic.models import rosen

xa = [-1.2, 1.0]
xb = [2.0, -1.0]

fresh = fmin_powell(rosen, xb, itermon=Monitor(), full_output=1, disp=0)

mon = Monitor()
fmin_powell(rosen, xa, itermon=mon, full_output=1, disp=0)      # first minimisation, logged in mon
n1 = len(mon)
used = fmin_powell(rosen, xb, itermon=mon, full_output=1, disp=0)  # second one, same logger

print("fresh monitor : x=%s f=%s iter=%s funcalls=%s warnflag=%s" % tuple(fresh[:5]))
print("re-used monitor (%d entries): x=%s f=%s iter=%s funcalls=%s warnflag=%s" % ((n1,) + tuple(used[:5])))
assert used[3] > 0, "no function evaluation was made"
assert float(used[1]) == float(rosen(used[0])), "fopt is not cost(xopt)"
assert np.allclose(used[0], fresh[0]) and float(used[1]) == float(fresh[1])
assert used[3] == fresh[3]
print("ok")
