"""C13 hunt 1: strict comparator + low-precedence RHS (conditional expression / `or`)
loses strictness because the tolerance term is appended to an unparenthesised RHS."""
import warnings; warnings.simplefilter('ignore')
from mystic.symbolic import generate_solvers, generate_constraint

def check(text, x, rhs_value, op):
    c = generate_constraint(generate_solvers(text, nvars=len(x)))
    x0 = list(x)
    y = list(c(list(x)))
    # other coordinates untouched
    assert all(y[i] == x0[i] for i in range(1, len(x))), (text, x0, y)
    # relation holds strictly
    ok = y[0] > rhs_value if op == '>' else y[0] < rhs_value
    assert ok, "%r on %s returned %s: x0 %s %s is False" % (text, x0, y, op, rhs_value)

# sanity: the same relation with a plain RHS is enforced strictly
check('x0 > x1', [0., 1., 1., 5.], 1., '>')
# parenthesised conditional is fine, too
check('x0 > (x1 if x2 else x3)', [0., 1., 1., 5.], 1., '>')
# RHS = (x1 if x2 else x3) = 1.0 when x2 is truthy; x0 must end up > 1.0
check('x0 > x1 if x2 else x3', [0., 1., 1., 5.], 1., '>')
# RHS = (x1 or 1.0) = 2.0 ; x0 must end up < 2.0
check('x0 < x1 or 1.0', [9., 2.], 2., '<')
print('ok')
