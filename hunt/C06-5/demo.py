"""C06 hunt #5 (borderline): the generation monitor of a restored solver does
not have the same contents as the monitor of the uninterrupted run: the message
log kept in the monitor (Monitor.get_info(), also written to the log file by a
LoggingMonitor) lacks the DUMPED record of the dump the solver was restored from
and has an extra LOADED record.

Run:  PYTHONPATH=/tmp/wt/C06 /venv/bin/python /tmp/wt/C06/_hunt/5/demo.py
exit 0 = property holds, exit 1 (AssertionError) = violated.
"""
import os, shutil, tempfile
from mystic.solvers import NelderMeadSimplexSolver, LoadSolver
from mystic.monitors import Monitor
from mystic.models import rosen

tmp = tempfile.mkdtemp()
try:
    fn = os.path.join(tmp, 'restart.pkl')
    def make():
        s = NelderMeadSimplexSolver(2)
        s.SetInitialPoints([0.8, 1.2])
        s.SetGenerationMonitor(Monitor())
        s.SetEvaluationLimits(generations=6)
        s.SetObjective(rosen)
        s.SetSaveFrequency(2, fn)
        return s
    s = make()
    s.Solve()                                  # uninterrupted run
    ref = (s._stepmon.x, s._stepmon.y, s._stepmon.get_info())

    s = make()
    while s.generations < 4: s.Step()          # "crash" after generation 4 (a dump generation)
    r = LoadSolver(fn)                         # same file name, so messages can be compared
    r.Solve()
    got = (r._stepmon.x, r._stepmon.y, r._stepmon.get_info())
    assert got[:2] == ref[:2]                  # (x, y) are the same ...
    if got[2] != ref[2]:
        print("uninterrupted:", ref[2])
        print("restored     :", got[2])
    assert got[2] == ref[2], "monitor message log of the restored run differs from the uninterrupted run"
    print("ok")
finally:
    shutil.rmtree(tmp)
