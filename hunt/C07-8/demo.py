"""C07 hunt #8 (borderline): the generation history that PowellDirectional-
Solver records (solution_history / energy_history / StepMonitor) depends on
whether a configuration call that changes nothing was made between two
iterations.  The search itself (best, energies, counters per step) is
unaffected.
"""
import numpy
from mystic.solvers import PowellDirectionalSolver
from mystic.termination import VTR
from mystic.constraints import with_mean
from mystic.penalty import quadratic_inequality


def cost(x):
    x = numpy.asarray(x)
    return float(((x - numpy.array([1.2, 2.7, 0.4]))**2).sum() + 0.3*numpy.sin(3*x).sum())


@with_mean(1.5)
def constraint(x):
    return x


@quadratic_inequality(lambda x: x[0] + x[1] - 3.0, k=100)
def penalty(x):
    return 0.0

N = 8


def run(noop_at=None):
    s = PowellDirectionalSolver(3)
    s.SetInitialPoints([0.8, 3.1, 1.9])
    s.SetEvaluationLimits(1000, 100000)
    s.SetTermination(VTR(-1e9))
    s.SetConstraints(constraint)
    s.SetPenalty(penalty)
    s.SetObjective(cost)
    steps = []
    for i in range(N):
        if i == noop_at: s.SetPenalty(penalty)  # the penalty that is already set
        s.Step()
        steps.append((numpy.asarray(s.bestSolution, float).tolist(), float(s.bestEnergy),
                      int(s.evaluations), int(s.generations)))
    s.Finalize()
    hist = ([numpy.asarray(x, float).tolist() for x in s.solution_history],
            numpy.asarray(s.energy_history, float).tolist())
    return steps, hist

(steps0, hist0), (steps1, hist1) = run(None), run(3)
print('per-step state equal :', steps0 == steps1)
print('energy_history  ref  :', hist0[1])
print('energy_history  no-op:', hist1[1])
assert steps0 == steps1
assert hist0 == hist1, "recorded generation history depends on a no-op Set* call between iterations"
print("OK")
