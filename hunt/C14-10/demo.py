"""C14 hunt 10 (borderline): one stacked decorator (= one python frame) per
line, so ~1000 lines exhaust the default recursion limit."""
import sys
from mystic.symbolic import (generate_solvers, generate_constraint,
                             generate_conditions, generate_penalty, symbolic_bounds)
n = 550                                   # 550 variables with lower and upper bounds -> 1100 lines
text = symbolic_bounds([0.]*n, [1.]*n)
assert sys.getrecursionlimit() == 1000    # the interpreter default
x = [2.]*n
fails = []
try:
    p = generate_penalty(generate_conditions(text, nvars=n))(x)
    print('penalty', p, 'expected', 200.*n)
    if abs(p - 200.*n) > 1e-6: fails.append(p)
except RecursionError as e:
    print('penalty raised RecursionError'); fails.append('penalty')
try:
    y = generate_constraint(generate_solvers(text, nvars=n))(list(x))
    if max(y) > 1: fails.append('constraint value')
except RecursionError as e:
    print('constraint raised RecursionError'); fails.append('constraint')
assert not fails, fails
