"""C01 hunt #1: ensemble solver with a pre-configured nested solver *instance*
and constraints set on the ensemble -> the reported optimum is the
unconstrained vector, which was never passed to the cost function, and the
reported energy is not the cost at that vector.
"""
import random
import numpy as np
from mystic.solvers import LatticeSolver, PowellDirectionalSolver
from mystic.termination import NormalizedChangeOverGeneration as NCOG

CALLS = {}  # every vector the user's cost function was called with -> value

def key(x):
    return tuple(float(i) for i in np.asarray(x, dtype=float).ravel())

def cost(x):
    x = np.asarray(x, dtype=float)
    y = float((x[0] - 0.3)**2 + (x[1] - 0.8)**2)
    CALLS[key(x)] = y
    return y

def constraint(x):                      # x1 == x0; deterministic and idempotent
    return [float(x[0]), float(x[0])]

random.seed(1); np.random.seed(1)

solver = LatticeSolver(2, nbins=[2, 2])
# documented usage: SetNestedSolver takes "a solver instance"
solver.SetNestedSolver(PowellDirectionalSolver(2))
solver.SetConstraints(constraint)
solver.SetEvaluationLimits(50, 2000)
solver.SetTermination(NCOG(1e-6, 5))
solver.Solve(cost)

x = solver.bestSolution
e = float(solver.bestEnergy)
print("bestSolution :", list(map(float, x)))
print("bestEnergy   :", e)
print("cost(best)   :", float((x[0] - 0.3)**2 + (x[1] - 0.8)**2))
print("evaluated?   :", key(x) in CALLS)

assert np.isfinite(e)
# the reported optimum must be a vector at which the cost was actually called
assert key(x) in CALLS, "bestSolution %r was never passed to the cost function" % (key(x),)
# ... and the reported energy must be the cost there (no penalty configured)
assert np.isclose(CALLS[key(x)], e, rtol=1e-12, atol=0), (CALLS[key(x)], e)
