"""C02 hunt 4: strict ranges in force from the first iteration, finite
bestEnergy, but the reported bestSolution lies outside the box.

Powell (and NelderMead) evaluate cost(x) = raw(constraints(x)) but then store /
report `constraints(x)` computed a second time.  With a constraint whose result
is not reproducible on re-application (here mystic's own
impose_bounds(..., clip=False), which maps exterior points to a *random* point
of a wider user box) the reported point is not the evaluated one and can lie
outside the strict box although the energy is finite.

exit 0 if the property holds, exit 1 (AssertionError) otherwise.
"""
import warnings
warnings.filterwarnings('ignore')
import numpy as np
from mystic.solvers import PowellDirectionalSolver, NelderMeadSimplexSolver
from mystic.constraints import impose_bounds
from mystic.tools import random_seed

lo, hi = np.array([0.0, 0.0]), np.array([1.0, 1.0])

def inside(x):
    x = np.asarray(x, dtype=float)
    return bool(np.all((x >= lo) & (x <= hi)))

failures = []

# (a) Powell + a stochastic mystic constraint on a wider box [0,2]^2
for seed in range(40):
    random_seed(seed)
    called_outside = []
    def cost(x):
        if not inside(x): called_outside.append(list(x))
        return float(np.sum((np.asarray(x) - 5.0)**2))
    constraint = impose_bounds([(0, 2), (0, 2)], clip=False)(lambda x: x)

    solver = PowellDirectionalSolver(2)
    solver.SetInitialPoints([0.5, 0.5])
    solver.SetStrictRanges(list(lo), list(hi))       # in force from the start
    solver.SetConstraints(constraint)
    solver.SetEvaluationLimits(40, 2000)
    solver.Solve(cost)
    assert not called_outside                        # (clause 1 does hold here)
    if np.isfinite(solver.bestEnergy) and not inside(solver.bestSolution):
        failures.append(('Powell/impose_bounds(clip=False)', seed,
                         list(solver.bestSolution), float(solver.bestEnergy)))

# (b) NelderMead + a deterministic but non-idempotent "constraint" (x -> -x)
lo, hi = np.array([1.0, 1.0]), np.array([2.0, 2.0])
def cost2(x):
    assert inside(x)
    return float(np.sum((np.asarray(x) - 0.3)**2))
solver = NelderMeadSimplexSolver(2)
solver.SetInitialPoints([1.5, 1.5])
solver.SetStrictRanges(list(lo), list(hi))
solver.SetConstraints(lambda x: [-xi for xi in x])
solver.SetEvaluationLimits(60, 3000)
solver.Solve(cost2)
if np.isfinite(solver.bestEnergy) and not inside(solver.bestSolution):
    failures.append(('NelderMead/negation', None,
                     list(solver.bestSolution), float(solver.bestEnergy)))

for f in failures:
    print("VIOLATION: %s seed=%s: bestSolution=%s outside the box, bestEnergy=%s finite" % f)
assert not failures, "finite bestEnergy but bestSolution outside the strict box"
print("ok")
