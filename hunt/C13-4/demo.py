"""C13 hunt 4: a right-hand side containing a generator expression or lambda that
refers to a variable cannot be evaluated (exec inside a function: 'x' is not
visible from nested scopes)."""
import warnings; warnings.simplefilter('ignore')
from mystic.symbolic import generate_solvers, generate_constraint

failures = []
def check(text, x, expect):
    x0 = list(x)
    try:
        y = list(generate_constraint(generate_solvers(text, nvars=len(x)))(list(x)))
    except Exception as e:
        failures.append("%r on %s: %s: %s" % (text, x0, type(e).__name__, e)); return
    if y != expect:
        failures.append("%r on %s: got %s, expected %s" % (text, x0, y, expect))

# x0 = 1 + x1 + x1**2 = 7  (three spellings of the same f)
check('x0 = 1 + x1 + x1**2', [0., 2.], [7., 2.])
check('x0 = sum([x1**i for i in range(3)])', [0., 2.], [7., 2.])   # list comprehension (inlined in py3.12)
check('x0 = sum(x1**i for i in range(3))', [0., 2.], [7., 2.])     # generator expression
# x0 >= 2*x1
check('x0 >= (lambda t: t*x1)(2)', [0., 2.], [4., 2.])
assert not failures, '\n'.join(failures)
print('ok')
