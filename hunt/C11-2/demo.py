"""C11 hunt 2: collapse_cost reports a wrong edge for the region above the last
high-cost interval (parameter VALUE + sample COUNT instead of a parameter value),
so the 'collapsed away' interval contains samples whose cost is at the minimum."""
import numpy as np
from mystic.monitors import Monitor
import mystic.collapse as ct

def definition_ok(xs, ys, bounds, limit, samples):
    """direct check of the documented definition for 1 parameter:
    every maximal interval that is removed (complement of the reported bounds, inside
    the sampled range) may only hold samples with cost - min(cost) >= limit... so every
    sample with cost - min(cost) < limit must lie inside one of the reported (kept) bounds."""
    ys = np.asarray(ys); xs = np.asarray(xs)
    good = xs[ys - ys.min() < limit]
    outside = [float(x) for x in good if not any(lo <= x <= hi for (lo, hi) in bounds)]
    return outside

failures = []
for step in (0.1, 0.5, 3.0):
    xs = [step*i for i in range(30)]
    ys = [0.]*5 + [10.]*20 + [0.]*5    # low cost at both ends, 20 high-cost samples between
    m = Monitor()
    for x, y in zip(xs, ys): m([x], y)
    for clip in (False, True):
        r = ct.collapse_cost(m, clip=clip, limit=1.0, samples=10)
        print("step", step, "clip", clip, "->", r)
        assert 0 in r, "the 20-sample high-cost interval must be reported"
        out = definition_ok(xs, ys, r[0], 1.0, 10)
        if out:
            failures.append("step=%s clip=%s: minimum-cost samples at x=%s are outside the reported bounds %s"
                            % (step, clip, out, r[0]))
        # converse: no kept interval may contain >= `samples` consecutive (in parameter order)
        # recorded samples that all have cost - min(cost) >= limit
        for (lo, hi) in r[0]:
            run = best = 0
            for x, y in zip(xs, ys):
                if lo < x < hi and y - min(ys) >= 1.0: run += 1; best = max(best, run)
                else: run = 0
            if best >= 10:
                failures.append("step=%s clip=%s: kept interval %s still holds %d consecutive high-cost samples"
                                % (step, clip, (float(lo), float(hi)), best))

for f in failures: print("VIOLATION:", f)
assert not failures, "%d violation(s)" % len(failures)
print("OK")
