"""C20 hunt 2: a cost (or parameter) recorded as a 0-d numpy array is kept as
an ndarray, and write_raw_file writes it as `array(3.)`, which read_raw_file
cannot read back."""
import os, tempfile
import numpy as np
from mystic.monitors import Monitor, LoggingMonitor
from mystic.munge import write_raw_file, read_raw_file, logfile_reader

d = tempfile.mkdtemp()
failures = []

# e.g. cost = numpy.squeeze(...) or numpy.asarray(scalar): a 0-d array
mon = Monitor()
mon([1.0, 2.0], np.array(3.0))
mon([4.0, 5.0], np.array(6.0))
assert len(mon) == 2 and [float(y) for y in mon.y] == [3.0, 6.0]

f = os.path.join(d, 'raw_traj.py')
write_raw_file(mon, f)
try:
    params, cost = read_raw_file(f)
    if not (params == [[1.0, 2.0], [4.0, 5.0]] and [float(c) for c in cost] == [3.0, 6.0]):
        failures.append('raw file differs: %r %r' % (params, cost))
except Exception as e:
    failures.append('read_raw_file (0-d cost): %r' % e)

# the same for parameters given as a list of 0-d arrays, in the text log
log = os.path.join(d, 'log.txt')
lm = LoggingMonitor(1, log, new=True)
lm([np.array(1.0), np.array(2.0)], 3.0)
try:
    step, params, cost = logfile_reader(log, iter=True)
    if not (step == [(0,)] and [[float(i) for i in p] for p in params] == [[1.0, 2.0]] and cost == [3.0]):
        failures.append('log differs: %r %r %r' % (step, params, cost))
except Exception as e:
    failures.append('logfile_reader (0-d params): %r' % e)

for msg in failures: print(msg)
assert not failures, "0-d array inputs cannot be read back"
print('ok')
