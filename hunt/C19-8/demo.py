"""Setting var on a measure must achieve the value; where that is impossible
(a measure with a single supported point has variance 0 whatever its
positions) the package's documented answer is nan positions (impose_variance:
"protect against ZeroDivision when variance = 0", and the pinned
test_set_behavior expects nan for the analogous range case).  It must never
hand back a finite measure with a different mean and the wrong variance.
"""
from math import isnan
from mystic.math.discrete import measure, point_mass

def check(m, v):
    m0 = m.center_mass
    m.var = v
    if all(isnan(x) for x in m.positions):
        return                                    # documented 'impossible' marker
    assert abs(m.var - v) <= 1e-9 * max(1.0, v), \
        "var = %r after setting %r; positions %r" % (m.var, v, m.positions)
    assert abs(m.center_mass - m0) <= 1e-9, (m0, m.center_mass)   # 'mean-preserving'

# control: weight 1.0 -> mean is exact -> variance exactly 0 -> nan (accepted)
check(measure([point_mass(-3.0, 1.0)]), 1.0)
# control: an ordinary two-point measure
check(measure([point_mass(-3.0, 0.25), point_mass(1.0, 0.75)]), 1.0)

# shape (1,) with a weight for which w*x/w != x in floating point
check(measure([point_mass(-3.0, 0.8455206481626025)]), 1.0)
# two points, one of them with zero weight
check(measure([point_mass(1.6991963970580635, 0.21346493808174383), point_mass(-3.0, 0.0)]), 1.0)
print("ok")
