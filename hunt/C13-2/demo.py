"""C13 hunt 2: an infinite right-hand side turns xi into NaN, even when the
input already satisfies the relation (tolerance arithmetic inf-inf / inf*0)."""
import warnings; warnings.simplefilter('ignore')
import math
from mystic.symbolic import generate_solvers, generate_constraint
inf = float('inf')
ops = {'<=': lambda a, b: a <= b, '<': lambda a, b: a < b, '>=': lambda a, b: a >= b,
       '>': lambda a, b: a > b, '!=': lambda a, b: a != b}

def check(op, x):
    text = 'x0 %s x1' % op
    c = generate_constraint(generate_solvers(text, nvars=2))
    x0 = list(x)
    assert ops[op](x0[0], x0[1])          # the input already satisfies the relation
    y = list(c(list(x)))
    assert y[1] == x0[1], (text, x0, y)
    assert ops[op](y[0], y[1]) and not math.isnan(y[0]), \
        "%r on %s returned %s: relation does not hold" % (text, x0, y)
    assert y[0] == x0[0], "%r on %s returned %s: feasible input was changed" % (text, x0, y)

# finite but huge values are handled
check('<=', [0., 1e308]); check('<', [0., 1e308]); check('>', [0., -1e308]); check('!=', [0., 1e308])
# infinite values are not
check('<=', [0., inf])
check('<', [0., inf])
check('>=', [0., -inf])
check('>', [0., -inf])
check('!=', [0., inf])
print('ok')
