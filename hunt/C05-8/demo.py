"""C05 hunt #8 (borderline): with GradientNormTolerance as termination the cost function is
really called many times more than the evaluation limit allows; these calls are not counted.

Property: evaluations exceed the evaluation limit by less than one iteration's worth
(observation point: number of real cost calls).
"""
import numpy as np
from mystic.solvers import NelderMeadSimplexSolver
from mystic.termination import GradientNormTolerance, VTR

calls = [0]
def cost(x):
    calls[0] += 1
    x = np.asarray(x)
    return float(((x - 1.)**2).sum() + (x[0]*x[1] - 1.)**2)

LIMIT = 30
def run(term):
    calls[0] = 0
    s = NelderMeadSimplexSolver(3); s.SetInitialPoints([0.8, 1.2, 0.7])
    s.SetEvaluationLimits(None, LIMIT)
    s.SetTermination(term)
    s.Solve(cost)
    return s

worst_iteration = 3 + 2          # NelderMead, N=3: at most N+2 evaluations per iteration (shrink)

s = run(VTR(1e-30))              # reference
assert s.evaluations == calls[0] < LIMIT + worst_iteration

s = run(GradientNormTolerance(1e-12))
print('evaluations reported:', s.evaluations, ' real cost calls:', calls[0], ' limit:', LIMIT)
assert s.evaluations < LIMIT + worst_iteration
assert calls[0] < LIMIT + worst_iteration, \
    "cost really called %d times with an evaluation limit of %d" % (calls[0], LIMIT)
print('ok')
