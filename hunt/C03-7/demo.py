"""C03 (borderline) / strict ranges (re)installed mid-run while the constraints
have been in force from the first iteration: re-decorating the objective clips
the current best point into the new box but keeps its old energy.  NelderMead
and Powell then report (to the very end) a point whose reported energy is the
energy of a different, now infeasible, point."""
import numpy as np
from mystic.solvers import NelderMeadSimplexSolver, PowellDirectionalSolver

T = np.array([0.3, 1.7, 2.4])
def cost(x):
    x = np.asarray(x, dtype=float)
    return float(np.sum((x - T)**2) + 0.1*np.sum(np.cos(3*x)))

def constraint(x):              # pure, deterministic, idempotent: pin x0 = 1
    y = [float(i) for i in x]
    y[0] = 1.0
    return y

lo, hi = [-2., -5., -5.], [2., 0.5, 5.]      # the constraint maps this box into itself
bad = []
for S in (NelderMeadSimplexSolver, PowellDirectionalSolver):
    s = S(3)
    s.SetInitialPoints([0.7, 1.3, 3.6])
    s.SetConstraints(constraint)             # from the first iteration
    s.SetEvaluationLimits(generations=10)
    s.Solve(cost)
    assert abs(cost(s.bestSolution) - s.bestEnergy) < 1e-12
    s.SetStrictRanges(lo, hi)                # reconfiguration between iterations
    s.SetEvaluationLimits(generations=60)
    s.Solve()
    x = [float(i) for i in s.bestSolution]
    inside = all(l <= v <= h for l, v, h in zip(lo, x, hi)) and constraint(x) == x
    print(S.__name__, 'reported', x, 'bestEnergy', float(s.bestEnergy), 'cost(reported)', cost(x),
          'feasible' if inside else 'INFEASIBLE')
    if not inside or abs(cost(x) - s.bestEnergy) > 1e-12: bad.append(S.__name__)

assert not bad, "reported energy is not the energy of the reported point: %s" % bad
