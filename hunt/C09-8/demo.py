"""C09 / hunt 8: a bin layout given as an ndarray is accepted by LatticeSolver's
constructor (it builds prod(nbins) member slots) but the solve then fails.

Exits 0 if the lattice solve works and has prod(nbins) members started at the
cell centres, exactly as for the same layout given as a list; exits 1 otherwise.
"""
import numpy as np
from mystic.solvers import LatticeSolver
from mystic.monitors import Monitor
from mystic.tools import random_seed

def cost(x):
    return float(sum((np.asarray(x) - 0.3)**2))

def run(nbins):
    random_seed(123)
    s = LatticeSolver(2, nbins)
    s.SetStrictRanges([0, 0], [1, 1])
    s.SetEvaluationMonitor(Monitor())
    s.SetEvaluationLimits(generations=5)
    s.Solve(cost, disp=0)
    return sorted(list(map(float, m._evalmon._x[0])) for m in s._allSolvers)

ref = run([2, 3])
print("list  nbins ->", len(ref), "members, starts", ref)
ok = True
try:
    got = run(np.array([2, 3]))
    print("array nbins ->", len(got), "members, starts", got)
    ok = (got == ref)
except Exception as e:
    print("array nbins -> %s: %s" % (type(e).__name__, e))
    ok = False
assert ok, "LatticeSolver(dim, nbins=ndarray) does not behave like nbins=list"
print("OK")
