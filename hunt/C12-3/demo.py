# C12 hunt 3: solve() on a consistent linear system with a redundant equation and a
# non-integer constant returns a single point (or a point that is not even a solution)
import os, sys
sys.path.insert(0, os.path.dirname(os.path.abspath(__file__)))
from fractions import Fraction as F
from evalref import holds, _split, _ev
from mystic.symbolic import solve

# (system, kwds, points that solve the system exactly)
cases = [
 ('3*x0 - 2*x1 = 3.5\n6*x0 - 4*x1 = 7', {},                       # rank 1: a line of solutions
  [{'x0': F(3, 2), 'x1': F(1, 2)}, {'x0': F(-13, 2), 'x1': F(-23, 2)}, {'x0': F(1, 2), 'x1': F(-1)}]),
 ('3*x0 + 2*x1 = -3.5\n-3*x0 - 2*x1 = 3.5\n-1*x0 + 1*x1 = 2', {},  # unique solution (-1.5, 0.5)
  [{'x0': F(-3, 2), 'x1': F(1, 2)}]),
 ('-3*x0 - 2 = -5*x1 + 17/2\n-6*x0 + 10*x1 == 21', {'target': ['x1', 'x0']},  # rank 1
  [{'x0': F(0), 'x1': F(21, 10)}, {'x0': F(5), 'x1': F(51, 10)}]),
]
def close(form, p, tol=F(1, 10**9)):
    "every line 'lhs = rhs' of the solved form holds at p to within tol (allows sympy's 15-digit floats)"
    for line in form.split('\n'):
        if not line.strip(): continue
        l, c, r = _split(line.strip())
        assert c in ('=', '=='), line
        if abs(_ev(l, p) - _ev(r, p)) > tol: return False
    return True
bad = []
for s, kw, pts in cases:
    res = solve(s, **kw)
    assert isinstance(res, str), res
    for p in pts:
        assert holds(s, p), (s, p)        # sanity: p really solves the system
        if not close(res, p):
            bad.append((s, kw, res, p)); break
for s, kw, res, p in bad:
    print('solve(%r, **%r)\n  -> %r\n  %s solves the system but not the solved form' % (s, kw, res, dict((k, str(v)) for k, v in p.items())))
assert not bad, 'solved form does not have the solutions of the system'
print('ok')
