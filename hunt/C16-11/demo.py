"""Reconfiguring the selection with the .index() setter: a single int is accepted by the constructor
(index=1) but makes the decorated function raise when given through the setter."""
from mystic.constraints import discrete, integers, rounded, precision

identity = lambda x: x
x = [0.26, 1.74, 5.55]
failures = []
for name, make in (('discrete', lambda **k: discrete([1., 2.], **k)), ('integers', lambda **k: integers(float, **k)),
                   ('rounded', lambda **k: rounded(1, **k)), ('precision', lambda **k: precision(1, **k))):
    ref = list(make(index=1)(identity)(list(x)))          # single index via constructor
    c = make()(identity)
    c.index(1)                                            # the same selection via the setter
    try:
        y = list(c(list(x)))
    except Exception as e:
        print(name, 'raised', type(e).__name__, e); failures.append(name); continue
    if y != ref: failures.append((name, y, ref))
assert not failures, failures
