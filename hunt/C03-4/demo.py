"""C03 / DifferentialEvolutionSolver(2): bestSolution is initialised with the
*unconstrained* population[0] and is only replaced by a trial with a strictly
lower energy than inf.  If no evaluated trial has a finite energy yet when the
run is stopped, the reported solution violates the constraints (NelderMead and
Powell report the constrained start point in the same situation)."""
import numpy as np
from mystic.solvers import (DifferentialEvolutionSolver, DifferentialEvolutionSolver2,
                            NelderMeadSimplexSolver, PowellDirectionalSolver)
from mystic.tools import random_seed

def constraint(x):              # pure, deterministic, idempotent: pin x0 = 1
    y = [float(i) for i in x]
    y[0] = 1.0
    return y

def cost(x):                    # barrier cost: feasible only in a thin slab
    if abs(x[1] - 0.25) > 1e-3: return np.inf
    return (x[2] - 0.5)**2

bad = []
for S in (NelderMeadSimplexSolver, PowellDirectionalSolver,
          DifferentialEvolutionSolver, DifferentialEvolutionSolver2):
    for maxiter in (0, 1, 5):
        random_seed(4)
        if S in (NelderMeadSimplexSolver, PowellDirectionalSolver):
            s = S(3); s.SetInitialPoints([3., 3., 3.])
        else:
            s = S(3, 8); s.SetRandomInitialPoints([-5.]*3, [5.]*3)
        s.SetConstraints(constraint)         # in force from the first iteration
        s.SetEvaluationLimits(generations=maxiter)
        s.Solve(cost)
        x = [float(i) for i in s.bestSolution]
        ok = constraint(x) == x
        print(S.__name__, 'maxiter=%d' % maxiter, 'reported', x, s.bestEnergy, 'ok' if ok else 'VIOLATES x0 == 1')
        if not ok: bad.append((S.__name__, maxiter))

assert not bad, "reported solution does not satisfy the constraints: %s" % bad
