"""C11 hunt 4: for a product measure whose measures have different numbers of points
(npts = (1,3), (3,1), (2,3)) collapse_weight / collapse_position look at the wrong
parameters, so they report weights/positions that do not meet the tolerance test
(or that do not exist), miss the ones that do, or raise."""
import numpy as np
from mystic.math.discrete import product_measure
from mystic.monitors import Monitor
import mystic.collapse as ct

def reference(rows, npts, tol):
    """direct evaluation of the definitions via product_measure"""
    W = {}; P = {}
    ms = [product_measure().load(list(r), npts) for r in rows]
    for m in range(len(npts)):
        for i in range(npts[m]):
            if max(c[m].weights[i] for c in ms) <= tol: W.setdefault(m, set()).add(i)
            for j in range(i+1, npts[m]):
                if max(abs(c[m].positions[i]-c[m].positions[j]) for c in ms) <= tol: P.setdefault(m, set()).add((i, j))
    return W, P

def clean(d, pair=False):
    if pair: return dict((int(k), set((int(a), int(b)) for a, b in v)) for k, v in d.items())
    return dict((int(k), set(int(i) for i in v)) for k, v in d.items())

failures = []
cases = [
  # npts, parameter vector [w..][x..][w..][y..]
  ((1, 3), [1.0, 5.0,   0.0, 0.5, 0.5,   1.0, 2.0, 2.0]),   # w[1][0]==0 ; y[1]==y[2]
  ((3, 1), [0.0, 0.5, 0.5,   1.0, 2.0, 2.0,   1.0, 5.0]),
  ((2, 3), [0.0, 1.0,  3.0, 4.0,   0.2, 0.0, 0.8,   1.0, 1.0, 2.0]),
]
for npts, x in cases:
    # sanity: product_measure itself supports this layout
    c = product_measure().load(x, npts)
    assert list(c.flatten()) == x
    m = Monitor(); m._npts = npts
    for i in range(6): m(list(x), 0.0)
    W, P = reference([x]*6, npts, 0.005)
    for name, fn, ref, pair in (('collapse_weight', ct.collapse_weight, W, False),
                                ('collapse_position', ct.collapse_position, P, True)):
        try:
            got = clean(fn(m, tolerance=0.005, generations=5), pair)
        except Exception as e:
            failures.append("npts=%s %s raised %s: %s (expected %s)" % (npts, name, type(e).__name__, e, ref))
            continue
        print(npts, name, got, "expected", ref)
        if got != ref:
            failures.append("npts=%s %s reports %s, definition gives %s" % (npts, name, got, ref))

for f in failures: print("VIOLATION:", f)
assert not failures, "%d violation(s)" % len(failures)
print("OK")
