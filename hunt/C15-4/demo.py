"""C15 (borderline): the penalty is k*h**n*(expression in the violation) for
all k, h, iteration counts and evaluation points; where the condition is
satisfied the decorated function's value is returned.  Large-but-legal
iteration counts / violations make the code raise OverflowError instead of
returning f(x) (feasible) or +inf / a huge positive number (violated)."""
from mystic import penalty as mp

inf = float('inf')
bad = []
# (a) feasible point, many iterations (default k=100, h=5)
for t in ['quadratic_equality', 'linear_equality', 'quadratic_inequality',
          'linear_inequality', 'lagrange_equality', 'lagrange_inequality']:
    p = getattr(mp, t)(lambda x: x[0])(lambda x: 2.5)
    p.iter(450)
    assert p.iteration() == 450
    try:
        y = p([0.])
        if y != 2.5:
            bad.append((t, 'feasible, n=450', y))
    except OverflowError as e:
        bad.append((t, 'feasible, n=450', repr(e)))
# (b) violated point with a large violation at iteration 0
for t in ['quadratic_equality', 'quadratic_inequality', 'lagrange_equality',
          'lagrange_inequality']:
    p = getattr(mp, t)(lambda x: x[0])(lambda x: 2.5)
    for f in (p, p.error):
        try:
            y = f([1e200])
            if not y > 0:
                bad.append((t, f.__name__, y))
        except OverflowError as e:
            bad.append((t, f.__name__ + '([1e200])', repr(e)))
for b in bad:
    print(b)
assert not bad
print("ok")
