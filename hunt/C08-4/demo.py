"""C08 / fmin, fmin_powell: giving only `maxiter` (or only `maxfun`) does not lift the other
limit as in scipy.optimize (where the unspecified one becomes infinite); mystic keeps
its default N*200 (N*1000 for Powell) for the other limit, so the run is cut short and
minimizer, minimum, iteration and evaluation counts all differ from the reference.
"""
import warnings
import numpy as np
warnings.filterwarnings('ignore')
import scipy.optimize as so
from mystic.solvers import fmin, fmin_powell

def cost(x):   # narrow curved valley (ill-conditioned)
    return (x[0] - 1)**2 + 1e6*(x[1] - x[0]**2)**2
x0 = [-3., 5.]

ref = so.fmin(cost, x0, maxiter=5000, full_output=1, disp=0)
got = fmin(cost, x0, maxiter=5000, full_output=1, disp=0)
print("scipy  fmin(maxiter=5000):", ref)
print("mystic fmin(maxiter=5000):", got)
ok1 = np.allclose(ref[0], got[0], atol=1e-6) and tuple(ref[2:5]) == tuple(got[2:5])

ref = so.fmin(cost, x0, maxfun=5000, full_output=1, disp=0)
got = fmin(cost, x0, maxfun=5000, full_output=1, disp=0)
print("scipy  fmin(maxfun=5000):", ref)
print("mystic fmin(maxfun=5000):", got)
ok2 = np.allclose(ref[0], got[0], atol=1e-6) and tuple(ref[2:5]) == tuple(got[2:5])

assert ok1, "fmin(maxiter=5000) does not reproduce scipy.optimize.fmin"
assert ok2, "fmin(maxfun=5000) does not reproduce scipy.optimize.fmin"
print("ok")
