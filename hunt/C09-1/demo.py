"""C09 / hunt 1: settings changed on the ensemble after its members exist never
reach the members (limits, termination, constraints, penalty, bounds).

Exits 0 if every member obeys the ensemble's current limits/constraints,
exits 1 (AssertionError) otherwise.
"""
import numpy as np
from mystic.solvers import LatticeSolver, NelderMeadSimplexSolver
from mystic.tools import random_seed

CALLS = []
def cost(x):
    CALLS.append([float(i) for i in x])
    return float(sum((np.asarray(x) - 0.3)**2))

# ---- A: step mode, tighten the generation limit after three steps ----------
random_seed(123)
s = LatticeSolver(2, [2, 2])
s.SetNestedSolver(NelderMeadSimplexSolver)
s.SetStrictRanges([-2, -2], [2, 2])
for i in range(3):
    s.Step(cost)
s.SetEvaluationLimits(generations=6)        # ensemble-level limit
k = 0
while not s.Terminated() and k < 1000:
    s.Step(); k += 1
iters_A = list(s._all_iters)
print("A: member iterations after SetEvaluationLimits(generations=6):", iters_A,
      " ensemble _maxiter now:", s._maxiter)

# ---- B: solve mode, raise the limit and Solve again -----------------------
random_seed(123)
t = LatticeSolver(2, [2, 2])
t.SetNestedSolver(NelderMeadSimplexSolver)
t.SetStrictRanges([-2, -2], [2, 2])
t.SetEvaluationLimits(generations=5)
t.Solve(cost)
first = list(t._all_iters)
t.SetEvaluationLimits(generations=1000, evaluations=100000)
t.Solve()
second = list(t._all_iters)
print("B: member iterations after 1st Solve (limit 5):", first,
      " after raising the limit to 1000 and Solve():", second,
      " member _maxiter:", [m._maxiter for m in t._allSolvers])

# ---- C: step mode, impose a constraint on the ensemble after three steps --
random_seed(123)
u = LatticeSolver(2, [2, 2])
u.SetNestedSolver(NelderMeadSimplexSolver)
u.SetStrictRanges([-2, -2], [2, 2])
for i in range(3):
    u.Step(cost)
n0 = len(CALLS)
u.SetConstraints(lambda x: [1.5, 1.5])      # every later evaluation must be at (1.5,1.5)
for i in range(3):
    u.Step()
viol = [x for x in CALLS[n0:] if x != [1.5, 1.5]]
print("C: evaluations after SetConstraints not at the constrained point:", len(viol), "of", len(CALLS) - n0)

assert all(i <= 6 for i in iters_A), \
    "members ignore the ensemble's evaluation limits: %s > 6" % iters_A
assert all(b > a for a, b in zip(first, second)), \
    "members did not continue under the ensemble's new limits: %s -> %s" % (first, second)
assert not viol, "members ignore the ensemble's constraints"
print("OK")
