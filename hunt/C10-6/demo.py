"""A condition built with a numpy-array setting cannot report its state (hence cannot be rebuilt, or even set on a solver)."""
import numpy as np
from mystic.solvers import NelderMeadSimplexSolver
import mystic.termination as mt
from mystic.termination import VTR, PopulationSpread, ChangeOverGeneration, And

solver = NelderMeadSimplexSolver(2)
solver.SetInitialPoints([1., 1.])
solver.energy_history = [3.0, 0.001]

def rebuild(c):
    return mt.type(c)(**mt.state(c)[c.__doc__])

failures = []
for label, cond in [("VTR(tolerance=np.array(0.005))", VTR(tolerance=np.array(0.005))),
                    ("VTR(tolerance=np.float64(0.005)) [control]", VTR(tolerance=np.float64(0.005))),
                    ("PopulationSpread(tolerance=np.array([1e-6, 1e-3]))", PopulationSpread(np.array([1e-6, 1e-3]))),
                    ("ChangeOverGeneration(generations=np.array(1))", ChangeOverGeneration(1e-6, np.array(1)))]:
    # the condition itself works ...
    orig = cond(solver), cond(solver, True)
    try:
        new = rebuild(cond)
        if (new(solver), new(solver, True)) != orig:
            failures.append("%s: rebuilt condition behaves differently" % label)
    except Exception as e:
        failures.append("%s: state() raised %r" % (label, e))
    try:
        solver.SetTermination(And(cond, VTR()))
    except Exception as e:
        failures.append("%s: solver.SetTermination raised %r" % (label, e))

for f in failures: print("VIOLATION:", f)
assert not failures
print("ok")
