"""NormalizedChangeOverGeneration: a drop from an infinite cost to a finite one counts as 'no change'."""
import numpy as np
from mystic.solvers import NelderMeadSimplexSolver
from mystic.termination import NormalizedChangeOverGeneration, ChangeOverGeneration

def documented(cost, tolerance, g):
    "(cost[-g] - cost[-1]) / 0.5*(abs(cost[-g]) + abs(cost[-1])) <= tolerance"
    if len(cost) <= g: return False
    if cost[-g] == cost[-1]: return True     # plateau / tie (0/0, inf-inf): no change
    with np.errstate(all='ignore'):
        num = np.float64(cost[-g]) - np.float64(cost[-1])
        den = 0.5 * (abs(np.float64(cost[-g])) + abs(np.float64(cost[-1])))
        return bool(num / den <= tolerance)   # nan <= tol is False

solver = NelderMeadSimplexSolver(2)
solver.SetInitialPoints([1., 1.])
inf = float('inf')

failures = []
for hist in ([inf, inf, inf, inf, 7.0],          # first feasible point just found
             [inf, inf, 100.0, 50.0, 7.0],
             [5.0, 4.0, 3.0, 2.0, -inf]):        # unbounded drop
    for g in (2, 3, 4):
        for tol in (1e-4, 1e-12):
            solver.energy_history = hist
            got = NormalizedChangeOverGeneration(tol, g)(solver)
            want = documented(hist, tol, g)
            if got != want:
                failures.append((hist, g, tol, got, want))

for f in failures: print("VIOLATION: hist=%s g=%s tol=%s -> %s, documented inequality gives %s" % f)
assert not failures
print("ok")
