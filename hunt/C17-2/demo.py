"""constraints.and_ claims success at a vector where a member raises ZeroDivisionError
(the member is silently counted as 'made no change')."""
from mystic.constraints import and_

def recip_mean(x):
    "rescale so that the mean is 1 (divides by the mean: ZeroDivisionError when mean == 0)"
    m = sum(x)/len(x)
    return [i/m for i in x]

def clip(x):
    "-1 <= x <= 1"
    return [min(max(i, -1.), 1.) for i in x]

fired = []
f = and_(recip_mean, clip,
         onexit=lambda x: (fired.append('exit'), x)[1],
         onfail=lambda x: (fired.append('fail'), x)[1])
x0 = [3.0, -5.0]     # recip_mean -> [-3, 5]; clip -> [-1, 1] (mean 0)
r = f(x0)            # deterministic: no cycle is detected, random is never called
assert len(fired) == 1
if fired[0] == 'exit':
    for c in (recip_mean, clip):
        try:
            out = c(list(r))
        except ZeroDivisionError:
            raise AssertionError("and_ reported success at %r but member %s cannot even "
                                 "be evaluated there (ZeroDivisionError)" % (r, c.__name__))
        assert out == r, (c.__name__, r, out)
print("ok")
