"""coupler.and_/or_ with a documented non-default ptype are not zero 'exactly where' the
members are zero: quadratic scaling underflows, barrier scaling is +inf at zero."""
import warnings; warnings.simplefilter('ignore')
from mystic.penalty import quadratic_equality, barrier_inequality, linear_equality
from mystic.coupler import and_, or_

member = linear_equality(lambda x: x[0], k=1)(lambda x: 0.0)     # |x0| : zero iff x0 == 0
zero_member = lambda x: 0.0

for comb, members in ((and_, (member, zero_member)), (or_, (member, member))):
    for ptype in (None, quadratic_equality, barrier_inequality):
        c = comb(*members, ptype=ptype)
        for v in (0.0, 1.0, 1e-170):
            all_zero = all(m([v]) == 0.0 for m in members)      # for these members any == all
            assert (c([v]) == 0.0) == all_zero, \
                "%s ptype=%s x0=%r: members=%r combined=%r" % (
                    comb.__name__, getattr(ptype, '__name__', None), v,
                    [m([v]) for m in members], c([v]))
print("ok")
