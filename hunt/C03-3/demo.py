"""C03 / GradientNormTolerance termination: approximates the gradient by
calling the *raw* user cost at bestSolution + eps*e_i, i.e. at points that
violate the installed constraints (for every solver)."""
import numpy as np
from mystic.solvers import (NelderMeadSimplexSolver, PowellDirectionalSolver,
                            DifferentialEvolutionSolver, DifferentialEvolutionSolver2)
from mystic.termination import GradientNormTolerance
from mystic.tools import random_seed

T = np.array([0.3, 1.7, 2.4])
calls = []
def cost(x):
    calls.append([float(i) for i in x])
    x = np.asarray(x, dtype=float)
    return float(np.sum((x - T)**2))

def constraint(x):   # pure, idempotent: pin x0, clamp x1, integer x2
    y = [float(i) for i in x]
    y[0] = 1.0
    y[1] = min(max(y[1], -0.5), 0.5)
    y[2] = float(round(y[2]))
    return y

bad = {}
for S in (NelderMeadSimplexSolver, PowellDirectionalSolver,
          DifferentialEvolutionSolver, DifferentialEvolutionSolver2):
    random_seed(1)
    del calls[:]
    if S in (NelderMeadSimplexSolver, PowellDirectionalSolver):
        s = S(3); s.SetInitialPoints([0.7, -1.3, 3.6])
    else:
        s = S(3, 8); s.SetRandomInitialPoints([-2., -5., -5.], [2., 5., 5.])
    s.SetConstraints(constraint)
    s.SetEvaluationLimits(generations=5)
    s.SetTermination(GradientNormTolerance(1e-5))
    s.Solve(cost)
    v = [x for x in calls if constraint(x) != x]
    print(S.__name__, "evaluations: %d, at unconstrained points: %d" % (len(calls), len(v)), v[:1])
    if v: bad[S.__name__] = len(v)

assert not bad, "user's cost evaluated at points violating the constraints: %s" % bad
