"""C07 hunt #2: with strict ranges set, every (re)build of the decorated
objective of DifferentialEvolutionSolver / DifferentialEvolutionSolver2
silently draws nPop-1 numbers from the global random source.  The rebuild is
triggered by things that do not change the configuration at all, so two runs
with the same seed, the same population and the same settings diverge:

  (a) passing the same bound method as `cost` to every Step()
      (`obj.cost is obj.cost` is False, so the objective is re-decorated),
  (b) calling a Set* method with the value that is already set between two
      iterations (here SetPenalty(None) on a solver that has no penalty).
"""
import copy, random, numpy
from mystic.solvers import DifferentialEvolutionSolver, DifferentialEvolutionSolver2
from mystic.termination import VTR
from mystic.tools import random_seed


class Model(object):
    def cost(self, x):
        x = numpy.asarray(x)
        return float(((x - numpy.array([1.2, 2.7, 0.4]))**2).sum()
                     + 0.3*numpy.sin(3*x).sum())

POP = [[0.8,3.1,1.9],[0.1,0.2,4.0],[4.4,1.0,2.0],[2.2,2.2,2.2],
       [3.0,0.5,0.9],[1.0,1.0,1.0],[0.3,3.3,0.3],[4.9,4.9,0.1]]
N = 10


def build(cls):
    s = cls(3, 8)
    s.population = copy.deepcopy(POP)          # the same initial population
    s.SetStrictRanges([0,0,0], [5,5,5])
    s.SetEvaluationLimits(1000, 100000)
    s.SetTermination(VTR(-1e9))                # never stops within N steps
    random_seed(7)                             # the same seed
    return s


def snap(s):
    return (numpy.array([numpy.asarray(p, float) for p in s.population]).tolist(),
            numpy.asarray(s.popEnergy, float).tolist(),
            numpy.asarray(s.bestSolution, float).tolist(), float(s.bestEnergy),
            int(s.evaluations), int(s.generations))


failures = []
for cls in (DifferentialEvolutionSolver, DifferentialEvolutionSolver2):
    m = Model()
    # reference: objective registered once, then N steps
    s = build(cls); s.SetObjective(m.cost)
    ref = []
    for i in range(N): s.Step(); ref.append(snap(s))

    # (a) the same objective handed to each Step
    s = build(cls)
    a = []
    for i in range(N): s.Step(m.cost); a.append(snap(s))

    # (b) a no-op Set* call between iteration 5 and 6
    s = build(cls); s.SetObjective(m.cost)
    b = []
    for i in range(N):
        if i == 6: s.SetPenalty(None)          # there is no penalty anyway
        s.Step(); b.append(snap(s))

    for name, run in (('(a) Step(obj.cost)', a), ('(b) no-op SetPenalty', b)):
        first = next((i for i in range(N) if run[i] != ref[i]), None)
        print(cls.__name__, name, 'first differing step:', first)
        if first is not None:
            failures.append((cls.__name__, name, first))

assert not failures, "same seed/population/settings, different trajectory: %s" % failures
print("OK")
