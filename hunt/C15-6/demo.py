"""C15 (adapters, constraints.as_penalty): the penalty built from a constraints
solver is zero where the constraint is satisfied and strictly positive where
it is violated, error(x) is the violation magnitude, and evaluating a penalty
does not touch the evaluation point."""
import numpy as np
import mystic.symbolic as ms
from mystic.constraints import as_penalty
from mystic.penalty import quadratic_equality, linear_equality

constraint = ms.generate_constraint(ms.generate_solvers(ms.simplify("x0 + x1 = 4")))
assert constraint([1., 1.]) == [3., 1.]          # [1,1] violates, is moved by 2

bad = []
for ptype in (None, quadratic_equality, linear_equality):
    p = as_penalty(constraint, ptype) if ptype else as_penalty(constraint)
    for make in (list, np.array):
        x = make([1., 1.])                      # x0 + x1 = 2 != 4 : violated
        y = p(x)
        if not y > 0:
            bad.append((ptype, make.__name__, 'penalty', y))
        if list(x) != [1., 1.]:
            bad.append((ptype, make.__name__, 'point modified', list(x)))
        x = make([1., 1.])
        e = p.error(x)
        if not abs(e - 2.0) < 1e-12:
            bad.append((ptype, make.__name__, 'error', e))
        x = make([3., 1.])                      # satisfied
        assert p(x) == 0.0 and p.error(x) == 0.0
for b in bad:
    print(b)
assert not bad
print("ok")
