"""C06 hunt #1: the periodic (SetSaveFrequency) dump written in the generation
in which the solver terminates cannot be resumed "as if never interrupted".

Run:  PYTHONPATH=/tmp/wt/C06 /venv/bin/python /tmp/wt/C06/_hunt/1/demo.py
exit 0 = property holds, exit 1 (AssertionError) = violated.
"""
import os, random, shutil, tempfile
import numpy as np
from mystic.solvers import PowellDirectionalSolver, NelderMeadSimplexSolver, LoadSolver
from mystic.monitors import Monitor
from mystic.models import rosen

def rng_get(): return random.getstate(), np.random.get_state()
def rng_set(s): random.setstate(s[0]); np.random.set_state(s[1])

def observe(s):
    "public, observable state of a solver"
    f = lambda a: np.asarray(a, dtype=float).tolist()
    return dict(population=f(s.population), popEnergy=f(s.popEnergy),
                bestSolution=f(s.bestSolution), bestEnergy=float(s.bestEnergy),
                generations=s.generations, evaluations=s.evaluations,
                stepmon_x=f(s._stepmon.x), stepmon_y=f(s._stepmon.y),
                evalmon_y=f(s._evalmon.y),
                energy_history=f(s.energy_history),
                solution_history=f(s.solution_history))

def differences(a, b):
    return [k for k in a if a[k] != b[k]]

def make(cls, fn, bounds):
    s = cls(3)
    s.SetInitialPoints([0.8, 1.2, 0.7])
    s.SetEvaluationMonitor(Monitor())
    s.SetGenerationMonitor(Monitor())
    if bounds: s.SetStrictRanges([0.0]*3, [1.1]*3)
    s.SetEvaluationLimits(generations=6)
    s.SetObjective(rosen)
    s.SetSaveFrequency(1, fn)      # dump the restart file after every generation
    return s

def experiment(cls, bounds, second_solve):
    tmp = tempfile.mkdtemp()
    try:
        fn = os.path.join(tmp, 'restart.pkl')
        random.seed(7); np.random.seed(7)
        s = make(cls, fn, bounds)
        dumps = []   # (restart file bytes, rng state) as they are after each generation
        def grab(x): # the callback runs right after the periodic dump of a generation
            with open(fn, 'rb') as f: dumps.append((f.read(), rng_get(), s.generations))
        s.Solve(callback=grab)               # the uninterrupted run
        if second_solve:                     # ... optionally extended by a second Solve
            rs2 = rng_get()
            s.SetEvaluationLimits(generations=4, new=True); s.Solve()
        ref = observe(s)
        failures = []
        for k, (data, rs, gen) in enumerate(dumps):   # every generation is a crash point
            fk = os.path.join(tmp, 'crash%d.pkl' % k)
            with open(fk, 'wb') as f: f.write(data)
            r = LoadSolver(fk)
            rng_set(rs)
            r.Solve()                        # resume
            if second_solve:
                rng_set(rs2)
                r.SetEvaluationLimits(generations=4, new=True); r.Solve()
            d = differences(ref, observe(r))
            if d: failures.append((gen, d))
        return failures
    finally:
        shutil.rmtree(tmp)

bad = {}
# (a) Powell: resumed run never logs the final iteration in its generation monitor
bad['Powell'] = experiment(PowellDirectionalSolver, bounds=False, second_solve=False)
# (b) Nelder-Mead with bounds: a following Solve diverges (different populations)
bad['NelderMead+bounds, second Solve'] = experiment(NelderMeadSimplexSolver, bounds=True, second_solve=True)
for k, v in bad.items():
    for gen, d in v:
        print("%s: resuming from the dump of generation %s differs in %s" % (k, gen, d))
assert not any(bad.values()), "a resumed run differs from the uninterrupted run"
print("ok")
