"""C01 hunt #3: differential evolution started with a generation monitor that
already holds entries (e.g. one monitor used to log two consecutive runs).
Generation 0 is skipped, bestSolution stays aliased to population[0], and the
returned optimum / energy pair is not a genuine (x, cost(x)) pair.
"""
import random
import numpy as np
from mystic.solvers import DifferentialEvolutionSolver
from mystic.monitors import Monitor
from mystic.termination import ChangeOverGeneration

CALLS = {}
def key(x):
    return tuple(float(i) for i in np.asarray(x, dtype=float).ravel())
def f(x):
    x = np.asarray(x, dtype=float)
    return float(np.sum((x - 1.5)**2))
def cost(x):
    y = f(x); CALLS[key(x)] = y; return y

failures = []

# class interface, checked after every Step
random.seed(3); np.random.seed(3); CALLS.clear()
log = Monitor(); log([0.5, 0.5], 2.0)            # a monitor that is not empty
solver = DifferentialEvolutionSolver(2, 8)
solver.SetInitialPoints([0.5, 0.5])
solver.SetGenerationMonitor(log)
solver.SetEvaluationLimits(40, 5000)
solver.SetTermination(ChangeOverGeneration(1e-12, 10))
e0 = f([0.5, 0.5])
best_bad = []; member_bad = []
for step in range(1, 41):
    stop = solver.Step(cost)
    x, e = solver.bestSolution, float(solver.bestEnergy)
    if np.isfinite(e):
        if key(x) not in CALLS or not np.isclose(CALLS[key(x)], e, rtol=1e-12, atol=0):
            best_bad.append((step, list(map(float, x)), e, f(x)))
        if e > e0:
            best_bad.append((step, 'worse than initial guess', e, e0))
        for m, em in zip(solver.population, solver.popEnergy):
            if np.isfinite(em) and not np.isclose(f(m), em, rtol=1e-12, atol=0):
                member_bad.append((step, list(map(float, m)), float(em), f(m)))
    if stop: break
print("class interface: %d steps" % step)
print("  iteration boundaries where (bestSolution, bestEnergy) is not a genuine pair:", len(best_bad))
if best_bad: print("  first: step %s x=%s bestEnergy=%r cost(x)=%r" % best_bad[0])
print("  member/energy mismatches:", len(member_bad))
if member_bad: print("  first: step %s member=%s stored=%r cost(member)=%r" % member_bad[0])
x, e = solver.bestSolution, float(solver.bestEnergy)
print("  final: x=%s bestEnergy=%r cost(x)=%r" % (list(map(float, x)), e, f(x)))
if best_bad: failures.append('class/best')
if member_bad: failures.append('class/member')

assert not failures, failures
