# C12 hunt 4: a variable named 'e' is substituted inside exponent-notation coefficients
# ('1e+20' -> '1_4+20' == 14 + 20, '2e5' -> '2_45' == 245), so the rewritten system is a different one
import os, sys, random
sys.path.insert(0, os.path.dirname(os.path.abspath(__file__)))
from fractions import Fraction as F
from evalref import holds
from mystic.symbolic import simplify, solve, linear_symbolic

names = list('abcde')
pts = [dict(zip(names, v)) for v in ([0, 0, 0, 0, 0], [1, 1 - 200000, 0, 0, 0], [F(-1, 10**18), 50, 1, 2, 3],
                                     [-1, 1, 0, 0, 0], [F(1, 10**20), 0, 0, 0, 0], [0, 1, 5, 5, 5], [0, -2, 1, 1, 1])]
pts = [dict((k, F(v)) for k, v in p.items()) for p in pts]
text = linear_symbolic(G=[[1e20, 1., 0., 0., 0.]], h=[1.], variables=names).strip()
cases = [(simplify, '1e+20*a + b <= 1', dict(all=True)),
         (simplify, text, dict(all=True)),          # '1e+20*a + 1.0*b + 0.0*c + 0.0*d + 0.0*e <= 1.0'
         (solve, '2e5*a + b = 1', {})]
bad = []
for f, s, kw in cases:
    random.seed(0)
    try:
        res = f(s, variables=names, **kw)
    except Exception as err:       # no result returned -> nothing to check
        print(f.__name__, repr(s), 'raised', repr(err)[:80]); continue
    for p in pts:
        if holds(s, p) != holds(res, p):
            bad.append((f.__name__, s, res, p)); break
for n, s, res, p in bad:
    print('%s(%r, variables=%r)\n  -> %r\n  differ at %s (input %s, result %s)' % (n, s, names, res, dict((k, str(v)) for k, v in p.items()), holds(s, p), holds(res, p)))
assert not bad, 'result has a different solution set'
print('ok')
