"""compose(samples, weights) followed by decompose must give back the samples
and the weights, for every shape (including one factor with one point) and for
zero weights - also when the nested weights are handed over as a numpy array.
"""
import numpy as np
from mystic.math.discrete import compose, decompose

# (a) shape (1,), the single weight is zero
x = np.array([[3.0]]); w = np.array([[0.0]])
c = compose(x, w)
xx, ww = decompose(c)
assert [[float(v) for v in r] for r in xx] == [[3.0]]
assert [[float(v) for v in r] for r in ww] == [[0.0]], \
    "weight 0.0 was replaced by %r" % (ww,)

# (b) shape (2,2)
x = np.array([[1., 2.], [3., 4.]]); w = np.array([[.25, .75], [0., 1.]])
c = compose(x, w)                       # ValueError on current code
xx, ww = decompose(c)
assert [[float(v) for v in r] for r in ww] == w.tolist()
assert [[float(v) for v in r] for r in xx] == x.tolist()
print("ok")
