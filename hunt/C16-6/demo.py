"""monotonic / sorting with an index tuple containing an out-of-range (or no) position raise,
whereas every other index-taking decorator ignores out-of-range positions."""
from mystic.constraints import monotonic, sorting, integers, impose_bounds

identity = lambda x: x
x = [3., 1., 2.]
failures = []
# the sibling decorators ignore out-of-range positions
assert list(integers(float, index=(0, 7))(identity)([0.4, 0.6])) == [0.0, 0.6]
assert list(impose_bounds((0, 1), index=(0, 7))(identity)([5., 5.])) == [1.0, 5.0]

for name, dec in (('monotonic', monotonic), ('sorting', sorting)):
    for index, expect in (((0, 1, 7), {'monotonic': [3., 3., 2.], 'sorting': [1., 3., 2.]}[name]),
                          ((), x)):
        try:
            y = list(dec(index=index)(identity)(list(x)))
        except Exception as e:
            print(name, index, 'raised', type(e).__name__, e)
            failures.append((name, index, type(e).__name__))
            continue
        print(name, index, y)
        if y != expect: failures.append((name, index, y))
# a position addressed twice (0 and its negative alias -3) must not lose a value
y = list(sorting(index=(0, -3, 1))(identity)([5., 1., 9.]))
print('sorting (0,-3,1) on [5,1,9]:', y)
if y != [1., 5., 9.]: failures.append(('sorting dup alias', y))
assert not failures, failures
