"""C20 hunt 1: a history whose costs mix numpy and python scalars cannot be
written with write_support_file / write_converge_file, nor read with
read_history(monitor)."""
import os, sys, tempfile
import numpy as np
from mystic.monitors import Monitor
from mystic.munge import (write_support_file, read_support_file,
                          write_converge_file, read_converge_file,
                          read_history)

# e.g. a cost function that returns numpy.float64 normally, and a plain
# python float('inf') / 1e6 when a penalty or a guard clause is hit
mon = Monitor()
mon([1.0, 2.0], np.float64(3.0))
mon([4.0, 5.0], 6.0)
mon([7.0, 8.0], float('inf'))

assert len(mon) == 3 and mon.y == [3.0, 6.0, float('inf')]

d = tempfile.mkdtemp()
failures = []

def same(a, b):
    return np.array_equal(np.array(a, dtype=float), np.array(b, dtype=float))

try:
    f = os.path.join(d, 'support_traj.py')
    write_support_file(mon, f)
    params, cost = read_support_file(f)
    # layout of read_support_file: params[candidate][parameter][iteration]
    x = np.array(params, dtype=float)[0].T
    if not (same(x, mon.x) and same(cost, mon.y)): failures.append('support: differs')
except Exception as e:
    failures.append('write_support_file/read_support_file: %r' % e)

try:
    f = os.path.join(d, 'converge_traj.py')
    write_converge_file(mon, f)
    params, cost = read_converge_file(f)
    # layout of read_converge_file: params[iteration][candidate] -> (parameters)
    x = np.array(params, dtype=float)[:, 0, :]
    if not (same(x, mon.x) and same(cost, mon.y)): failures.append('converge: differs')
except Exception as e:
    failures.append('write_converge_file/read_converge_file: %r' % e)

try:
    params, cost = read_history(mon)
    # layout of read_history: params[parameter][iteration] -> (candidates)
    x = np.array(params, dtype=float)[:, :, 0].T
    if not (same(x, mon.x) and same(cost, mon.y)): failures.append('history: differs')
except Exception as e:
    failures.append('read_history(monitor): %r' % e)

for msg in failures: print(msg)
assert not failures, "mixed numpy/python scalar costs are not given back"
print('ok')
