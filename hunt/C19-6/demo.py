"""_nested / _flat (and _nested_split / split_param) are documented as mutual
inverses between a flat parameter vector and the nested per-factor lists.
Solvers hand parameter vectors around as numpy arrays; for those the 'flat'
direction does not flatten.
"""
import numpy as np
from mystic.math.measures import _flat, _nested, _nested_split, split_param

npts = (2, 1)
p_list = [.5, .5, 1., 2., 1., 3.]          # wx1 wx2 x1 x2 wy1 y1
p_arr = np.array(p_list)

# reference: plain lists behave as documented
assert _flat(_nested(p_list, (2, 1, 3))) == p_list
assert split_param(p_list, npts) == ([.5, .5, 1.], [1., 2., 3.])

# same vector as an ndarray
back = _flat(_nested(p_arr, (2, 1, 3)))
assert len(back) == 6 and all(np.ndim(v) == 0 for v in back), \
    "_flat(_nested(ndarray)) is not flat: %r" % (back,)
assert [float(v) for v in back] == p_list

w, x = split_param(p_arr, npts)
assert all(np.ndim(v) == 0 for v in w + x), "split_param returned nested arrays: %r" % ((w, x),)
assert [float(v) for v in w] == [.5, .5, 1.] and [float(v) for v in x] == [1., 2., 3.]
print("ok")
