"""expect() and pof() of one and the same product measure must be explicit
sums over the same weighted points, i.e. use the same normalisation:
    pof(f) == expect( indicator[f(x) <= 0] )
and pof must be a probability in [0,1] (its docstring).
"""
from mystic.math.discrete import compose

c = compose([[1., 2.]], [[2., 3.]])           # one factor, mass 5 (not normalised)
P, W = c.positions, c.weights
assert [float(w) for w in W] == [2., 3.]

fails = lambda x: -1.0                         # f(x) <= 0 everywhere: always 'failure'
ind = lambda x: 1.0 if fails(x) <= 0.0 else 0.0

E = c.expect(ind)                              # 1.0  (= sum(w*1)/sum(w))
p = c.pof(fails)                               # 5.0  (= sum(w), not divided by the mass)
assert 0.0 <= p <= 1.0, "pof = %s is not a probability" % p
assert abs(p - E) < 1e-12, (p, E)
print("ok")
