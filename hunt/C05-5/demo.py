"""C05 hunt #5: SetGenerationMonitor(..., new=True) during a run restarts the generation count,
so a total generation limit no longer bounds the total.

Property: limits given without new=True bound the *totals*; generations never
exceed the generation limit - for all bounded sequences of Step/Solve/Set* calls.
"""
import random
import numpy as np
from mystic.solvers import DifferentialEvolutionSolver, NelderMeadSimplexSolver, PowellDirectionalSolver
from mystic.monitors import Monitor
from mystic.termination import VTR

def cost(x):
    x = np.asarray(x)
    return float(((x - 1.)**2).sum() + (x[0]*x[1] - 1.)**2) + 1.0   # never reaches VTR

LIMIT = 10
def run(make, swap):
    random.seed(0); np.random.seed(0)
    s = make()
    steps = [0]                                   # one callback per pass through _Step
    cb = lambda x: steps.__setitem__(0, steps[0] + 1)
    s.SetEvaluationLimits(LIMIT, 10**6)           # total limits
    s.SetTermination(VTR(1e-30)); s.SetObjective(cost)
    for i in range(6): s.Step(callback=cb)        # initial evaluation + 5 iterations
    swap(s)
    s.Solve(callback=cb)
    return s, steps[0]

def nm():
    s = NelderMeadSimplexSolver(3); s.SetInitialPoints([.8, 1.2, .7]); return s
def pw():
    s = PowellDirectionalSolver(3); s.SetInitialPoints([.8, 1.2, .7]); return s
def de():
    s = DifferentialEvolutionSolver(3, 6); s.SetRandomInitialPoints([-2]*3, [2]*3); return s

bad = []
for make in (nm, pw, de):
    # reference: replacing the monitor *without* new=True keeps the total
    s, n = run(make, lambda s: s.SetGenerationMonitor(Monitor()))
    assert s.generations == LIMIT and n == LIMIT + 1, (make.__name__, s.generations, n)
    # new=True
    s, n = run(make, lambda s: s.SetGenerationMonitor(Monitor(), new=True))
    # n passes through _Step; allow two of them to be "initial evaluations"
    iterations = n - 2
    print(make.__name__, 'reported generations', s.generations, 'iterations really performed >=', iterations,
          s.Terminated(info=True))
    if iterations > LIMIT: bad.append((make.__name__, iterations))
assert not bad, "total generation limit %d exceeded after SetGenerationMonitor(new=True): %s" % (LIMIT, bad)
print('ok')
