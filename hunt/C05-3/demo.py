"""C05 hunt #3: limits (re)set on an ensemble solver during a run are dropped.

Property: limits given without new=True bound the totals; generations never
exceed the generation limit - for all solvers and all points in a run at which
limits are (re)set.
"""
import random
import numpy as np
from mystic.solvers import BuckshotSolver, NelderMeadSimplexSolver
from mystic.termination import VTR

def cost(x):
    x = np.asarray(x)
    return float(((x - 1.)**2).sum() + (x[0]*x[1] - 1.)**2) + 1.0   # never reaches VTR

def scenario(s):
    s.SetEvaluationLimits(50, None)
    s.SetTermination(VTR(1e-30))
    s.SetObjective(cost)
    for i in range(4):                 # initial evaluation + 3 iterations
        assert s.Step() is None
    assert s.generations == 3
    s.SetEvaluationLimits(5, None)     # tighten the (total) generation limit mid-run
    return s

# reference: plain solver
s = NelderMeadSimplexSolver(2); s.SetInitialPoints([0.5, 1.5])
scenario(s).Solve()
assert s.generations == 5, s.generations
assert "'generations': 5" in s.Terminated(info=True)

# ensemble solver, stepped
random.seed(0); np.random.seed(0)
e = BuckshotSolver(2, npts=3); e.SetStrictRanges([-3, -3], [3, 3])
scenario(e).Solve(step=True)
print('generations:', e.generations, 'members:', e._all_iters, 'message:', e.Terminated(info=True))
assert e.generations <= 5 and max(e._all_iters) <= 5, \
    "generation limit 5 was set at generation 3, but the ensemble ran to %s" % e._all_iters
print('ok')
