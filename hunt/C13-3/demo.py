"""C13 hunt 3: variable names are substituted textually, so a legal variable-name
scheme that overlaps a function name / numeric literal on the right-hand side
breaks the compiled constraint."""
import warnings; warnings.simplefilter('ignore')
from mystic.symbolic import generate_solvers, generate_constraint

failures = []
def check(text, variables, x, expect):
    x0 = list(x)
    try:
        c = generate_constraint(generate_solvers(text, variables=variables, nvars=len(x)))
        y = list(c(list(x)))
    except Exception as e:
        failures.append("%r variables=%r: %s: %s" % (text, variables, type(e).__name__, e))
        return
    if y != expect:
        failures.append("%r variables=%r on %s: got %s, expected %s" % (text, variables, x0, y, expect))

# reference schemes that do work (same relations, other names)
check('A <= abs(B)', ['A', 'B'], [5., -1.], [1., -1.])
check('x0 <= abs(x1)', 'x', [5., -1.], [1., -1.])
check('y0 >= exp2(y1)', 'y', [0., 2., 1.], [4., 2., 1.])
# list scheme with lower-case single letters (cf. symbolic_bounds doc: list('AB'))
check('a <= abs(b)', ['a', 'b'], [5., -1.], [1., -1.])          # a0 = min(|b|, a)
check('x >= max(y, 1)', ['x', 'y'], [0., 3.], [3., 3.])
check('a >= 1e-3', list('abcde'), [0., 0., 0., 0., 0.], [1e-3, 0., 0., 0., 0.])
# base-name scheme: 'p2' inside 'exp2'
check('p0 >= exp2(p1)', 'p', [0., 2., 1.], [4., 2., 1.])
assert not failures, '\n'.join(failures)
print('ok')
