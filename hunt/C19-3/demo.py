"""product_measure.maximum/minimum/ptp/ess_* must be taken over the product
measure's (weighted) points, like expect/pof/support are.

The pinned test_dirac_measure.test_min_max asserts exactly
    c.maximum(f) == maximum(f, c.positions)   (etc.)
for the shape (5,).  For any shape with more than one factor it is false.
"""
from mystic.math.discrete import compose
from mystic.math.measures import maximum, minimum, ptp, ess_maximum, ess_minimum, ess_ptp

c = compose([[1., 3.], [4., 6.]], [[.5, .5], [1., 0.]])     # shape (2,2)
f = lambda x: sum((i*i - 2*i) for i in x)                   # same f as test_min_max

P, W = c.positions, c.weights
assert P == [(1., 4.), (3., 4.), (1., 6.), (3., 6.)]

ref = dict(maximum=max(f(p) for p in P),                    # 27
           minimum=min(f(p) for p in P),                    # 7
           ptp=max(f(p) for p in P) - min(f(p) for p in P),
           ess_maximum=max(f(p) for p, w in zip(P, W) if w > 0),   # 11
           ess_minimum=min(f(p) for p, w in zip(P, W) if w > 0),   # 7
           )
ref['ess_ptp'] = ref['ess_maximum'] - ref['ess_minimum']
# the module-level functions agree with the explicit reference
assert ref['maximum'] == maximum(f, P) and ref['ess_maximum'] == ess_maximum(f, P, W)

got = dict((k, getattr(c, k)(f)) for k in ref)
assert got == ref, "product_measure gives %r, explicit max/min over its points give %r" % (got, ref)

# a test function that really needs a product position
g = lambda x: x[0] * x[1]
assert c.maximum(g) == max(g(p) for p in P)       # IndexError on current code
print("ok")
