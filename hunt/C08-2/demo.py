"""C08 / Powell: a PowellDirectionalSolver that is stopped by an iteration limit and
then resumed does not reproduce Powell's method: it needs an extra sweep
(iteration and evaluation counts differ from the reference and from the very
same solver run without the interruption).

Reference = scipy (1.1.0) fmin_powell logic, verbatim, with mystic's own brent.
"""
import numpy as np
from numpy import asarray, eye, squeeze
from mystic._scipy060optimize import brent
from mystic.solvers import PowellDirectionalSolver
from mystic.termination import NormalizedChangeOverGeneration as NCOG

def cost(x):
    return (x[0] + 2*x[1] - 1)**2 + 3*(x[0] - x[1])**2 + 0.5*x[0]**2
x0 = [3., -2.]
xtol, ftol = 1e-4, 1e-4

def _ls(func, p, xi, tol):
    old = np.seterr(all='ignore')
    a, fret, _, _ = brent(lambda alpha: func(p + alpha*xi), full_output=1, tol=tol)
    np.seterr(**old)
    xi = a*xi
    return squeeze(fret), p + xi, xi

def reference(f, x0, xtol, ftol):
    calls = [0]
    def func(x):
        calls[0] += 1; return f(x)
    x = asarray(x0, dtype=float).flatten(); N = len(x)
    direc = eye(N); fval = squeeze(func(x)); x1 = x.copy(); it = 0
    while True:
        fx = fval; bigind = 0; delta = 0.0
        for i in range(N):
            fx2 = fval
            fval, x, _ = _ls(func, x, direc[i], xtol*100)
            if (fx2 - fval) > delta: delta = fx2 - fval; bigind = i
        it += 1
        if 2.0*(fx - fval) <= ftol*(abs(fx) + abs(fval)) + 1e-20: break
        d1 = x - x1; x2 = 2*x - x1; x1 = x.copy(); fx2 = squeeze(func(x2))
        if fx > fx2:
            t = 2.0*(fx + fx2 - 2.0*fval); tmp = fx - fval - delta; t *= tmp*tmp
            tmp = fx - fx2; t -= delta*tmp*tmp
            if t < 0.0:
                fval, x, d1 = _ls(func, x, d1, xtol*100)
                direc[bigind] = direc[-1]; direc[-1] = d1
    return x, float(fval), it, calls[0]

def mystic_run(stop_at=None):
    s = PowellDirectionalSolver(2)
    s.SetInitialPoints(x0)
    if stop_at is None:
        s.Solve(cost, NCOG(ftol, 2), xtol=xtol)
    else:
        s.SetEvaluationLimits(stop_at, None)       # stop after `stop_at` iterations
        s.Solve(cost, NCOG(ftol, 2), xtol=xtol)
        assert s.generations == stop_at
        s.SetEvaluationLimits(None, None)           # lift the limit and carry on
        s.Solve()
    return np.array(s.bestSolution), float(s.bestEnergy), s.generations, s.evaluations

ref = reference(cost, x0, xtol, ftol)
one = mystic_run()
two = mystic_run(stop_at=2)
print("reference        :", ref)
print("mystic, one Solve:", one)
print("mystic, resumed  :", two)
assert one[2:] == ref[2:] and one[1] == ref[1]          # sanity: uninterrupted run matches (>= 2 sweeps)
assert two[2:] == ref[2:], "resumed solver: iter/evals %s != reference %s" % (two[2:], ref[2:])
print("ok")
