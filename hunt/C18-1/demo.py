# C18: the point-to-point distance metrics must equal their textbook
# definitions for integer-typed inputs as well as float ones.
import math
import numpy as np
from mystic.math.distance import euclidean, minkowski, manhattan, chebyshev

def close(a, b): return abs(a - b) <= 1e-9 * max(abs(a), abs(b), 1.0)
fails = []

# (a) int64 points: the 3-4-5 triangle, scaled by 1e9  -> distance 5e9
a = np.array([0, 0]); b = np.array([4000000000, 3000000000])
d = float(euclidean(a, b, pair=True))
if not close(d, 5e9): fails.append(('euclidean int64', d, 5e9))
# same thing with plain python lists of ints
d = float(euclidean([0, 0], [4000000000, 3000000000], pair=True))
if not close(d, 5e9): fails.append(('euclidean list-of-int', d, 5e9))
# (b) default minkowski (p=3) between two integer points
ref = (3000000**3 + 3000000**3) ** (1. / 3)
d = float(minkowski([0, 0], [3000000, 3000000], pair=True))
if not close(d, ref): fails.append(('minkowski p=3 int', d, ref))
# (c) unsigned integer arrays (e.g. image/count data): |1-2| + |2-1| = 2
a = np.array([1, 2], dtype=np.uint8); b = np.array([2, 1], dtype=np.uint8)
d = float(manhattan(a, b, pair=True))
if not close(d, 2.0): fails.append(('manhattan uint8', d, 2.0))
d = float(chebyshev(a, b, pair=True))
if not close(d, 1.0): fails.append(('chebyshev uint8', d, 1.0))
# float control: must be right
assert close(float(euclidean([0., 0.], [4e9, 3e9], pair=True)), 5e9)

for f in fails: print('VIOLATION %s: got %r, textbook %r' % f)
assert not fails, "distance metrics wrong for integer-typed inputs"
print('ok')
