# C12 hunt 2: solve() drops the only equation when the first two target variables have a zero coefficient
import os, sys
sys.path.insert(0, os.path.dirname(os.path.abspath(__file__)))
from fractions import Fraction as F
from evalref import holds
from mystic.symbolic import solve, linear_symbolic

cases = [('0*x0 + 0*x1 + x2 = 3', dict(target=['x0', 'x1', 'x2'])),
         (linear_symbolic(A=[[0., 0., 2.]], b=[6.]).strip(), dict(target=['x0', 'x1'])),
         ('x0 - x0 + x1 - x1 + x2 = 3', dict(target=['x0', 'x1', 'x2']))]
grid = [F(i) for i in range(-4, 5)]
bad = []
for s, kw in cases:
    res = solve(s, **kw)           # consistent linear system: x2 = 3
    assert isinstance(res, str), res
    for c in grid:
        p = {'x0': F(1), 'x1': F(-2), 'x2': c}
        if holds(s, p) != holds(res, p):
            bad.append((s, kw, res, p)); break
for s, kw, res, p in bad:
    print('solve(%r, **%r)\n  -> %r\n  differ at %s (input %s, solved form %s)' % (s, kw, res, p, holds(s, p), holds(res, p)))
assert not bad, 'solved form does not have the solutions of the system'
print('ok')
