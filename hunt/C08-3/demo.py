"""C08 / Nelder-Mead: the default stop rule (CandidateRelativeTolerance) ignores a NaN
function value at a non-first vertex, so fmin stops long before the reference
scipy.optimize.fmin (iteration and evaluation counts differ).

The objective is only defined on the half-plane x[0] <= 1 (NaN outside), a common
way to write a function with a restricted domain; its minimum sits on the edge.
"""
import warnings
import numpy as np
warnings.filterwarnings('ignore')
from mystic.solvers import fmin

def cost(x):
    return -x[0] + abs(x[1] - 1) if x[0] <= 1 else np.nan
x0 = [1., 1.]

def reference(func, x0, xtol=1e-4, ftol=1e-4):
    "scipy.optimize.fmin (Nelder-Mead), verbatim logic"
    calls = [0]
    def f(x):
        calls[0] += 1; return func(x)
    x0 = np.asarray(x0, dtype=float).flatten(); N = len(x0)
    rho, chi, psi, sigma = 1, 2, 0.5, 0.5
    sim = np.zeros((N+1, N)); sim[0] = x0
    for k in range(N):
        y = np.array(x0, copy=True)
        y[k] = (1 + 0.05)*y[k] if y[k] != 0 else 0.00025
        sim[k+1] = y
    maxiter = maxfun = N*200
    fsim = np.array([f(s) for s in sim])
    ind = np.argsort(fsim); fsim = np.take(fsim, ind, 0); sim = np.take(sim, ind, 0)
    it = 1
    while calls[0] < maxfun and it < maxiter:
        if (np.max(np.ravel(np.abs(sim[1:] - sim[0]))) <= xtol and
                np.max(np.abs(fsim[0] - fsim[1:])) <= ftol):
            break
        xbar = np.add.reduce(sim[:-1], 0)/N
        xr = (1 + rho)*xbar - rho*sim[-1]; fxr = f(xr); doshrink = 0
        if fxr < fsim[0]:
            xe = (1 + rho*chi)*xbar - rho*chi*sim[-1]; fxe = f(xe)
            if fxe < fxr: sim[-1] = xe; fsim[-1] = fxe
            else: sim[-1] = xr; fsim[-1] = fxr
        elif fxr < fsim[-2]:
            sim[-1] = xr; fsim[-1] = fxr
        else:
            if fxr < fsim[-1]:
                xc = (1 + psi*rho)*xbar - psi*rho*sim[-1]; fxc = f(xc)
                if fxc <= fxr: sim[-1] = xc; fsim[-1] = fxc
                else: doshrink = 1
            else:
                xcc = (1 - psi)*xbar + psi*sim[-1]; fxcc = f(xcc)
                if fxcc < fsim[-1]: sim[-1] = xcc; fsim[-1] = fxcc
                else: doshrink = 1
            if doshrink:
                for j in range(1, N+1):
                    sim[j] = sim[0] + sigma*(sim[j] - sim[0]); fsim[j] = f(sim[j])
        ind = np.argsort(fsim); sim = np.take(sim, ind, 0); fsim = np.take(fsim, ind, 0)
        it += 1
    return sim[0], fsim[0], it, calls[0]

ref = reference(cost, x0)
try:   # the installed scipy agrees with the verbatim reference
    import scipy.optimize as so
    sp = so.fmin(cost, x0, full_output=1, disp=0)
    assert (sp[2], sp[3]) == ref[2:], (sp, ref)
except ImportError:
    pass
x, fx, it, nfev, warn = fmin(cost, x0, full_output=1, disp=0)
print("reference: x=%s f=%s iter=%s funcalls=%s" % ref)
print("mystic   : x=%s f=%s iter=%s funcalls=%s" % (x, fx, it, nfev))
assert np.allclose(x, ref[0]) and fx == ref[1]
assert (it, nfev) == ref[2:], "iter/funcalls %s differ from reference %s" % ((it, nfev), ref[2:])
print("ok")
