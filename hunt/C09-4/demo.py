"""C09 / hunt 4: space-filling points (fillpts, and SparsitySolver._InitialPoints
built on it) leave their ranges when a distribution is given.

Exits 0 if all generated points lie within [lb, ub]; exits 1 otherwise.
"""
import numpy as np
from mystic.math import Distribution, fillpts, samplepts
from mystic.solvers import SparsitySolver
from mystic.tools import random_seed

lb, ub = [0.0, 0.0], [1.0, 1.0]
dist = Distribution('numpy.random.normal', 0, 0.5)

def outside(pts):
    a = np.array(pts)
    return a[((a < np.array(lb)) | (a > np.array(ub))).any(axis=1)].tolist()

random_seed(123)
ref = samplepts(lb, ub, 6, dist)         # the sampled generator keeps its range with a dist
print("samplepts outside:", outside(ref))

random_seed(123)
pts = fillpts(lb, ub, 6, dist=dist)
print("fillpts  outside:", outside(pts))

random_seed(123)
s = SparsitySolver(2, 6)
s.SetStrictRanges(lb, ub)
s.SetDistribution(dist)
iv = s._InitialPoints()
print("SparsitySolver starting points outside the strict ranges:", outside(iv))

assert not outside(ref)
assert not outside(pts), "fillpts produced points outside [lb,ub]"
assert not outside(iv), "SparsitySolver starting points outside the strict ranges"
print("OK")
