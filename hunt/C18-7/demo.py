# C18 (borderline: narrow integer dtypes): mean/variance/impose_mean of an
# integer ndarray must equal the textbook value.
import numpy as np
from mystic.math.measures import mean, variance, impose_mean

fails = []
x = np.array([2000000000, 2000000000, 2000000001], dtype=np.int32)
ref = float(np.mean(x.astype(float)))
if abs(mean(x) - ref) > 1e-6: fails.append(('mean int32', mean(x), ref))
y = impose_mean(5., x)
if abs(np.mean(y) - 5.) > 1e-6: fails.append(('impose_mean int32', float(np.mean(y)), 5.))
x = np.array([100, 100, 101], dtype=np.int8); w = np.array([2, 2, 2], dtype=np.int8)
ref = float(np.average(x.astype(float), weights=w.astype(float)))
if abs(mean(x, w) - ref) > 1e-9: fails.append(('weighted mean int8', mean(x, w), ref))
for f in fails: print('VIOLATION %s: got %r, textbook %r' % f)
assert not fails
print('ok')
