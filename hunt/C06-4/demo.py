"""C06 hunt #4 (borderline): LoadSolver cannot restore a solver whose class is a
user-defined subclass of a mystic solver, although SaveSolver wrote a perfectly
good pickle of it (dill.load alone restores it and it resumes exactly).

Run:  PYTHONPATH=/tmp/wt/C06 /venv/bin/python /tmp/wt/C06/_hunt/4/demo.py
exit 0 = property holds, exit 1 (AssertionError) = violated.
"""
import os, tempfile
import numpy as np
from mystic.solvers import NelderMeadSimplexSolver, LoadSolver
from mystic.monitors import Monitor
from mystic.termination import VTR
from mystic.models import rosen

class MySimplexSolver(NelderMeadSimplexSolver):
    "a trivially derived solver (same algorithm)"
    pass

def make():
    s = MySimplexSolver(2)
    s.SetInitialPoints([0.8, 1.2])
    s.SetEvaluationMonitor(Monitor()); s.SetGenerationMonitor(Monitor())
    s.SetObjective(rosen); s.SetTermination(VTR(1e-12))
    return s

def observe(s):
    f = lambda a: np.asarray(a, dtype=float).tolist()
    return dict(population=f(s.population), popEnergy=f(s.popEnergy),
                evaluations=s.evaluations, generations=s.generations,
                stepmon_y=f(s._stepmon.y), evalmon_y=f(s._evalmon.y))

ref = make()
for i in range(8): ref.Step()
ref = observe(ref)

s = make()
for i in range(4): s.Step()
fd, fn = tempfile.mkstemp(suffix='.pkl'); os.close(fd)
s.SaveSolver(fn)
try:
    r = LoadSolver(fn)
except Exception as e:
    r = None
    print("LoadSolver failed: %r" % e)
finally:
    os.remove(fn)
assert r is not None, "the checkpoint written by SaveSolver cannot be restored with LoadSolver"
for i in range(4, 8): r.Step()
assert observe(r) == ref, "restored run differs from the uninterrupted run"
print("ok")
