"""C05 hunt #6 (borderline): an ensemble solver whose nested solver is given as a configured
*instance* ignores the ensemble's limits and termination altogether.

Property: generations never exceed the generation limit (for all solvers, configurations).
"""
import random
import numpy as np
from mystic.solvers import BuckshotSolver, NelderMeadSimplexSolver
from mystic.termination import VTR

def cost(x):
    x = np.asarray(x)
    return float(((x - 1.)**2).sum() + (x[0]*x[1] - 1.)**2) + 1.0

def run(nested):
    random.seed(0); np.random.seed(0)
    e = BuckshotSolver(2, npts=3); e.SetStrictRanges([-3, -3], [3, 3])
    e.SetNestedSolver(nested)
    e.SetEvaluationLimits(3, None)           # generation limit of the ensemble
    e.SetTermination(VTR(1e-30))
    e.SetObjective(cost)
    e.Solve()
    return e

e = run(NelderMeadSimplexSolver)             # nested solver given as a class: limit honoured
assert max(e._all_iters) == 3 and e.generations == 3

e = run(NelderMeadSimplexSolver(2))          # nested solver given as an instance
print('generations:', e.generations, 'members:', e._all_iters, 'message:', e.Terminated(info=True))
assert e.generations <= 3 and max(e._all_iters) <= 3, \
    "generation limit 3 set on the ensemble, members ran %s iterations" % e._all_iters
print('ok')
