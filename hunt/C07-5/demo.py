"""C07 hunt #5: DifferentialEvolutionSolver2 cannot be run with a serial map
that returns an iterator - python's builtin `map`, or mystic's own
`mystic.pools.SerialPool().map` (which the ensemble solvers accept and the
ensemble examples use).  The result of a DE2 run must not depend on which
(correct, order preserving) map evaluates the trial vectors.
"""
import copy, numpy
from mystic.solvers import DifferentialEvolutionSolver2
from mystic.pools import SerialPool
from mystic.python_map import python_map
from mystic.termination import VTR
from mystic.tools import random_seed


def cost(x):
    x = numpy.asarray(x)
    return float(((x - numpy.array([1.2, 2.7, 0.4]))**2).sum() + 0.3*numpy.sin(3*x).sum())

POP = [[0.8,3.1,1.9],[0.1,0.2,4.0],[4.4,1.0,2.0],[2.2,2.2,2.2],
       [3.0,0.5,0.9],[1.0,1.0,1.0],[0.3,3.3,0.3],[4.9,4.9,0.1]]


def run(themap):
    s = DifferentialEvolutionSolver2(3, 8)
    s.population = copy.deepcopy(POP)
    s.SetEvaluationLimits(15, 10000)
    s.SetTermination(VTR(-1e9))
    if themap is not None: s.SetMapper(themap)
    random_seed(7)
    try:
        s.Solve(cost)
    except Exception as e:
        return 'raised %s: %s' % (type(e).__name__, e)
    return (numpy.asarray(s.bestSolution, float).tolist(), float(s.bestEnergy),
            numpy.asarray(s.popEnergy, float).tolist(), int(s.evaluations), int(s.generations))

ref = run(None)
results = {'python_map': run(python_map),
           'list-returning serial map': run(lambda f, *a, **k: list(map(f, *a))),
           'mystic.pools.SerialPool().map': run(SerialPool().map),
           'builtin map': run(map)}
bad = []
for k, v in results.items():
    print('%-32s %s' % (k, 'same as default' if v == ref else v))
    if v != ref: bad.append(k)
assert not bad, "DE2 result depends on the supplied serial map: %s" % bad
print("OK")
