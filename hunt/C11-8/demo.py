"""C11 hunt 8: CollapseAt with the per-parameter target given as an ndarray (the detector
collapse_at handles it, and gives the same answer as for a list) cannot be used in a solver:
the condition's settings are round-tripped through eval() of its docstring."""
import numpy as np
from mystic.solvers import NelderMeadSimplexSolver
from mystic.monitors import Monitor
from mystic.termination import Or, CollapseAt, state
from mystic.termination import ChangeOverGeneration as COG
import mystic.collapse as ct

def cost(x): return x[0]**2 + x[1]**2 + (x[2]-1)**2

failures = []
results = {}
for name, target in (('list', [0., 0., 0.]), ('ndarray', np.array([0., 0., 0.]))):
    # detector level: both fine and identical
    m = Monitor()
    for i in range(5): m([0., 1e-5, 1.], 0.)
    assert ct.collapse_at(m, target=target, tolerance=1e-4, generations=3) == {0, 1}
    calls = []
    def f(x):
        calls.append(np.array(x, dtype=float)); return cost(x)
    try:
        s = NelderMeadSimplexSolver(3)
        s.SetInitialPoints([1., 1., 1.])
        s.SetEvaluationLimits(generations=3000)
        s.SetTermination(Or(COG(1e-12, 100), CollapseAt(target, tolerance=1e-4, generations=30)))
        s.Solve(f)
    except Exception as e:
        failures.append("target as %s: %s: %s" % (name, type(e).__name__, e))
        continue
    mask = [v['mask'] for k, v in state(s._termination).items() if k.startswith('CollapseAt')][0]
    print(name, "-> best", s.bestSolution, "mask", mask)
    if not (mask == {0, 1} and s.bestSolution[0] == 0. and s.bestSolution[1] == 0.):
        failures.append("target as %s: collapse not applied (mask %s, best %s)" % (name, mask, s.bestSolution))

for f in failures: print("VIOLATION:", f)
assert not failures, "%d violation(s)" % len(failures)
print("OK")
