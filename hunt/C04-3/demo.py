"""C04 hunt 3: SetStrictRanges on a solver that has run: the next Solve/Step
silently replaces the best x by the clipped x (no evaluation, no log), so the
reported result is no longer the last step-monitor record, and later records
are (x, energy) pairs that were never evaluated."""
import numpy as np
from mystic.solvers import NelderMeadSimplexSolver
from mystic.monitors import Monitor
from mystic.termination import VTR

calls = []
def cost(x):
    y = float((x[0]-5.0)**2 + (x[1]-5.0)**2)
    calls.append((tuple(float(i) for i in x), y))
    return y

solver = NelderMeadSimplexSolver(2)
solver.SetInitialPoints([4., 4.])
stepmon, evalmon = Monitor(), Monitor()
solver.SetGenerationMonitor(stepmon); solver.SetEvaluationMonitor(evalmon)
solver.SetTermination(VTR(1e-20))
solver.SetEvaluationLimits(generations=12)
solver.Solve(cost)                                   # stops at 12 generations
assert solver.generations == 12 and len(stepmon) == 13
assert list(stepmon.x[-1]) == list(solver.bestSolution) and stepmon.y[-1] == solver.bestEnergy

# reconfigure the stopped solver: bounds that exclude the current best (~[5,5])
solver.SetStrictRanges([-3, -3], [3, 3])
solver.Solve()                                       # still at its limit: stops at once
assert solver.Terminated() and solver.generations == 12 and len(calls) == solver.evaluations

print("last step-monitor record :", stepmon.x[-1], stepmon.y[-1])
print("reported result          :", list(solver.bestSolution), solver.bestEnergy)
ok1 = [float(i) for i in stepmon.x[-1]] == [float(i) for i in solver.bestSolution] \
      and float(stepmon.y[-1]) == float(solver.bestEnergy)

# ... and when the run is continued, the records written are not evaluated pairs
solver.SetEvaluationLimits(generations=3, new=True)
solver.Solve()
evaluated = set(calls)
assert set((tuple(float(i) for i in x), float(y)) for x, y in zip(evalmon.x, evalmon.y)) == evaluated
fake = [(k, x, y) for k, (x, y) in enumerate(zip(stepmon.x, stepmon.y))
        if (tuple(float(i) for i in x), float(y)) not in evaluated]
print("step-monitor records that are not any evaluated (x, cost(x)):", fake)
print("reported result after continuing:", list(solver.bestSolution), solver.bestEnergy,
      " cost(best x) =", (solver.bestSolution[0]-5.)**2 + (solver.bestSolution[1]-5.)**2)

assert ok1, "stopped run: last step-monitor record is not the reported result"
assert not fake, "step monitor holds (best x, best energy) records that were never evaluated"
print("OK")
