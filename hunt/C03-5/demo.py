"""C03 / and_(constraints, bounds) used as soon as SetStrictRanges is active:
and_ hands the user's constraint a *list* (not the ndarray the solver works
with) and swallows any TypeError/ValueError it raises (the filter
`msg.find('not supported') and msg.rfind("'complex'")` is truthy for -1), then
'detects a cycle' and randomises the point.  A pure ndarray-style constraint
that works without ranges is silently dropped once ranges are set: the cost is
evaluated at unconstrained (even randomised) points, and the reported solution
violates the constraint."""
import numpy as np
from mystic.solvers import NelderMeadSimplexSolver, PowellDirectionalSolver
from mystic.tools import random_seed

T = np.array([0.3, 1.7, 2.4])
calls = []
def cost(x):
    calls.append([float(i) for i in x])
    x = np.asarray(x, dtype=float)
    return float(np.sum((x - T)**2))

def constraint(x):      # pure (copies by arithmetic), deterministic, idempotent: pin x0 = 1
    y = x * 1.0         # fine for the ndarray NelderMead/Powell pass; TypeError for a list
    y[0] = 1.0
    return y

def holds(x):
    x = np.array(x, dtype=float)
    return bool(np.all(constraint(x) == x))

bad = []
for S in (NelderMeadSimplexSolver, PowellDirectionalSolver):
    for ranges in (None, 'default', 'tight'):
        random_seed(2)
        del calls[:]
        s = S(3)
        s.SetInitialPoints([0.7, -1.3, 3.6])
        if ranges == 'default': s.SetStrictRanges([-5.]*3, [5.]*3)
        if ranges == 'tight': s.SetStrictRanges([-5.]*3, [5.]*3, tight=True)
        s.SetConstraints(constraint)
        s.SetEvaluationLimits(generations=5)
        s.Solve(cost)
        nbad = sum(1 for x in calls if not holds(x))
        okbest = holds(s.bestSolution)
        print(S.__name__, 'ranges=%s' % ranges, 'evaluations %d, unconstrained %d' % (len(calls), nbad),
              'best', list(s.bestSolution), 'ok' if okbest else 'VIOLATES x0 == 1')
        if nbad or not okbest: bad.append((S.__name__, ranges))

assert not bad, "constraints silently not applied: %s" % bad
