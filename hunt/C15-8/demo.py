"""C15 (borderline / by design): "every penalty type returns exactly the
decorated function's value wherever its condition is satisfied (<= 0 for
inequality types)".  barrier_inequality does not: on the boundary f(x) == 0
it returns +inf, and in the interior it adds -log(-f(x))/(2*pk), which is
negative for f(x) < -1.  lagrange_inequality with a non-zero multiplier
history adds a negative amount at feasible points."""
import warnings
from mystic import penalty as mp
warnings.simplefilter('ignore')
cost = lambda x: 2.5
problems = []
b = mp.barrier_inequality(lambda x: x[0])(cost)
for c in (0., -0.5, -1., -10.):
    y = b([c])
    if y != 2.5:
        problems.append(('barrier_inequality', c, y))
l = mp.lagrange_inequality(lambda x: x[0])(cost)
l.store([1.0]); l.iter()             # multiplier beta = 2*k*1 = 40
for c in (0., -0.1, -10.):
    y = l([c])
    if y != 2.5:
        problems.append(('lagrange_inequality, history [1.0]', c, y))
for pr in problems:
    print(pr)
assert not problems
print("ok")
