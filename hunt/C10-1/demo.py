"""And/Or over sibling sub-trees that have the same members but a different operator."""
from mystic.solvers import NelderMeadSimplexSolver
from mystic.termination import And, Or, When, VTR

solver = NelderMeadSimplexSolver(2)
solver.SetInitialPoints([1., 1.])
solver.energy_history = [3.0, 2.0, 0.0]        # cost[-1] == 0.0

a = VTR(0.5, 0.0)     # |0 - 0| <= 0.5   -> satisfied
b = VTR(0.5, 10.0)    # |0 - 10| <= 0.5  -> NOT satisfied
assert a(solver) is True and b(solver) is False

both, either = And(a, b), Or(a, b)
assert both(solver) is False and either(solver) is True   # the members behave

def leaves(info):
    return set(info.split("; ")) if info else set()

failures = []
# (tree, expected truth value)
cases = [
    ("And(And(a,b), Or(a,b))", And(And(a, b), Or(a, b)), False),
    ("And(Or(a,b), And(a,b))", And(Or(a, b), And(a, b)), False),
    ("Or(Or(a,b), And(a,b))",  Or(Or(a, b), And(a, b)),  True),
    ("Or(And(a,b), Or(a,b))",  Or(And(a, b), Or(a, b)),  True),
    ("When(And(And(a,b), Or(a,b)))", When(And(And(a, b), Or(a, b))), False),
]
for name, tree, expected in cases:
    got = tree(solver)
    msg = tree(solver, info=True)
    named = tree(solver, 'self')
    if bool(got) != expected:
        failures.append("%s -> %r, expected %r" % (name, got, expected))
    if bool(msg) != expected:
        failures.append("%s info=True -> %r, expected %s" % (name, msg, 'non-empty' if expected else "''"))
    if not leaves(msg) <= {a.__doc__}:
        failures.append("%s info names an unsatisfied leaf: %r" % (name, msg))
    # every member named by 'self' must itself be satisfied
    for m in named:
        if not m(solver):
            failures.append("%s 'self' names unsatisfied member %r" % (name, m))

for f in failures: print("VIOLATION:", f)
assert not failures, "%d compound-evaluation violations" % len(failures)
print("ok")
