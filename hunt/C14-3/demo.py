"""C14 hunt 3: a NaN condition value is turned into a ZERO penalty by
max(0., nan) in the *_inequality penalties (and equal infinities give NaN)."""
import warnings, math
import numpy as np
from mystic.symbolic import generate_conditions, generate_penalty
import mystic.penalty as mp
warnings.simplefilter('ignore')

fails = []
def check(text, x, ptype=None):
    names = {'x%d' % i: np.float64(v) for i, v in enumerate(x)}
    names.update(sqrt=np.sqrt, log=np.log)
    lhs, rhs = text.split('<=')
    holds = bool(eval(lhs, {}, names) <= eval(rhs, {}, names))   # independent evaluation
    ineq, eq = generate_conditions(text)
    p = generate_penalty((ineq, eq), ptype)(x)
    ok = (p == 0) if holds else (p > 0)
    print("%-18s x=%-12s holds=%-5s cond=%-5s penalty=%-5s %s" % (text, x, holds, ineq[0](x), p, '' if ok else '<-- not positive'))
    if not ok: fails.append((text, x, p))

check("sqrt(x0) <= 1", [-1.])
check("log(x0) <= 0", [-2.])
check("sqrt(x0) <= 1", [-1.], mp.linear_inequality)
check("sqrt(x0) <= 1", [-1.], mp.uniform_inequality)
check("x0/x1 <= 1", np.array([0., 0.]))      # list input gives inf (ZeroDivisionError), ndarray gives nan -> 0.0

# second symptom (different site): 'lhs - (rhs)' is nan when both sides are the same infinity
ineq, eq = generate_conditions("x0 = x1")
x = [float('inf'), float('inf')]
p = generate_penalty((ineq, eq))(x)
print("x0 = x1 at [inf, inf]: holds=%s cond=%s penalty=%s" % (x[0] == x[1], eq[0](x), p))
if not p == 0: fails.append(('inf-inf', p))

assert not fails, fails
