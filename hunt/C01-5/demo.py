"""C01 hunt #5 (borderline): a solver is re-seeded with SetInitialPoints after it
has run (restart from another point, "a second Solve").  The population is
overwritten but popEnergy / bestEnergy are kept, so the new start point is
reported as the optimum with the energy of the old optimum.
"""
import random
import numpy as np
from mystic.solvers import (NelderMeadSimplexSolver, PowellDirectionalSolver,
                            DifferentialEvolutionSolver)
from mystic.termination import ChangeOverGeneration

def f(x):
    x = np.asarray(x, dtype=float)
    return float(np.sum((x - 1.5)**2) * (1.0 + np.sum((x + 2.0)**2)))   # global min 0 at (1.5,1.5)

failures = []
for S in (NelderMeadSimplexSolver, PowellDirectionalSolver, DifferentialEvolutionSolver):
    random.seed(3); np.random.seed(3)
    calls = {}
    def cost(x, calls=calls):
        y = f(x); calls[tuple(float(i) for i in x)] = y; return y
    solver = S(2, 8) if 'Differential' in S.__name__ else S(2)
    solver.SetInitialPoints([0.5, 0.5])
    solver.SetEvaluationLimits(400, 50000)
    solver.SetTermination(ChangeOverGeneration(1e-12, 10))
    solver.Solve(cost)
    first = (list(map(float, solver.bestSolution)), float(solver.bestEnergy))
    # restart from somewhere else, allow 200 more generations
    solver.SetInitialPoints([4.0, -3.0])
    solver.SetEvaluationLimits(200, 50000, new=True)
    solver.Solve()
    x, e = solver.bestSolution, float(solver.bestEnergy)
    k = tuple(float(i) for i in x)
    ok_best = k in calls and np.isclose(calls[k], e, rtol=1e-12, atol=0)
    ok_members = all(np.isclose(f(m), em, rtol=1e-12, atol=0)
                     for m, em in zip(solver.population, solver.popEnergy) if np.isfinite(em))
    print("%-28s first run %s E=%.3g | after restart: bestSolution=%s bestEnergy=%.3g cost(bestSolution)=%.6g evaluated=%s members_ok=%s"
          % (S.__name__, [round(i, 4) for i in first[0]], first[1], [round(float(i), 4) for i in x], e, f(x), k in calls, ok_members))
    if not (ok_best and ok_members): failures.append(S.__name__)

assert not failures, failures
