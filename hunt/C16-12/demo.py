"""impose_bounds(dict, index=...): the index filter is matched against the dict keys literally, so a negative
alias of a bounded position (or vice versa) silently selects nothing."""
from mystic.constraints import impose_bounds

identity = lambda x: x
x = [5., 5., 5.]
# reference: list-bounds with a negative index work, dict key given negatively works too
assert list(impose_bounds((0, 1), index=(-1,))(identity)(list(x))) == [5., 5., 1.]
assert list(impose_bounds({-1: (0, 1)})(identity)(list(x))) == [5., 5., 1.]
# dict bounds on position 2, selected through its negative alias -1
y = list(impose_bounds({2: (0, 1)}, index=(-1,))(identity)(list(x)))
print(y)
assert y == [5., 5., 1.], ('selected entry 2 (= -1) was not bounded', y)
