"""C04 hunt 4: restarting a used NelderMead/Powell solver from a new initial
point (SetInitialPoints + Solve) overwrites the best x but keeps the old best
energy: the reported result / step-monitor records pair the NEW x with the OLD
energy, a pair that was never evaluated."""
import numpy as np
from mystic.solvers import NelderMeadSimplexSolver, PowellDirectionalSolver
from mystic.monitors import Monitor
from mystic.termination import VTR
from mystic.tools import random_seed

def run(Solver):
    calls = []
    def cost(x):
        y = float((x[0]-5.0)**2 + (x[1]-5.0)**2)
        calls.append((tuple(float(i) for i in x), y))
        return y
    random_seed(3)
    solver = Solver(2)
    solver.SetInitialPoints([4., 4.])
    stepmon, evalmon = Monitor(), Monitor()
    solver.SetGenerationMonitor(stepmon); solver.SetEvaluationMonitor(evalmon)
    solver.SetTermination(VTR(1e-20))
    solver.SetEvaluationLimits(generations=12)
    solver.Solve(cost)                       # first run: best ~[5,5]
    first = (list(map(float, solver.bestSolution)), float(solver.bestEnergy))
    # restart the same solver from a new initial point
    solver.SetInitialPoints([0., 0.])
    solver.SetEvaluationLimits(generations=3, new=True)
    solver.Solve()
    assert solver.Terminated()
    assert solver.evaluations == len(calls) == len(evalmon)
    best = (tuple(map(float, solver.bestSolution)), float(solver.bestEnergy))
    last = (tuple(map(float, stepmon.x[-1])), float(stepmon.y[-1]))
    fake = [k for k, (x, y) in enumerate(zip(stepmon.x, stepmon.y))
            if (tuple(map(float, x)), float(y)) not in set(calls)]
    print(Solver.__name__)
    print("  first run result          :", first)
    print("  reported result (restart) :", best, " true cost there:", (best[0][0]-5)**2+(best[0][1]-5)**2)
    print("  last step-monitor record  :", last)
    print("  step records never evaluated:", fake)
    return best == last, not fake

r_nm = run(NelderMeadSimplexSolver)
r_pw = run(PowellDirectionalSolver)
assert r_pw[0], "Powell: step monitor of the stopped run does not end in the reported result"
assert r_nm[1], "NelderMead: step monitor holds (x, energy) pairs that were never evaluated"
print("OK")
