"""constraints.not_ reports success ('changed by c') for a vector c leaves unchanged,
when the input is a tuple (or c returns a tuple): the comparison is type sensitive."""
from mystic.constraints import not_

def clip(x):                      # 0 <= x <= 1, returns a list
    return [min(max(i, 0.), 1.) for i in x]

def run(c, x0):
    fired = []
    f = not_(c, onexit=lambda x: (fired.append('exit'), x)[1],
                onfail=lambda x: (fired.append('fail'), x)[1], maxiter=1)
    r = f(x0)
    return r, fired[0]

for c, x0 in ((clip, (0.5, 0.25)),                       # tuple input, list-returning member
              (lambda x: tuple(clip(x)), [0.5, 0.25])):  # list input, tuple-returning member
    r, how = run(c, x0)            # no randomness is used on the success path
    if how == 'exit':
        assert list(c(r)) != list(r), \
            "not_ reported success at %r but the member leaves it unchanged: %r" % (r, c(r))
print("ok")
