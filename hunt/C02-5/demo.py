"""C02 hunt 5: the out-of-box test of wrap_bounds does not fire for NaN, so a
candidate with a NaN coordinate (here produced by a user constraint x/sum(x)
at the corner [0,0] of the box) is handed to the user's cost.

exit 0 if the property holds, exit 1 (AssertionError) otherwise.
"""
import warnings
warnings.filterwarnings('ignore')
import numpy as np
from mystic.solvers import (NelderMeadSimplexSolver, PowellDirectionalSolver,
                            DifferentialEvolutionSolver, DifferentialEvolutionSolver2)
from mystic.tools import random_seed

lo, hi = np.array([0.0, 0.0]), np.array([1.0, 1.0])
def inside(x):
    x = np.asarray(x, dtype=float)
    return bool(np.all((x >= lo) & (x <= hi)))      # NaN is not inside

def weights(x):                 # "weights sum to one": pushes [0,0] to [nan,nan]
    x = np.asarray(x, dtype=float)
    return x / x.sum()

failures = []

for Solver in (NelderMeadSimplexSolver, PowellDirectionalSolver,
               DifferentialEvolutionSolver, DifferentialEvolutionSolver2):
    random_seed(0)
    outside = []
    def cost(x):
        if not inside(x): outside.append(list(x))
        return float(np.sum((np.asarray(x) - 0.3)**2))
    solver = Solver(2)
    solver.SetInitialPoints([-1.0, -2.0])            # clipped to the corner [0,0]
    solver.SetStrictRanges(list(lo), list(hi))
    solver.SetConstraints(weights)
    solver.SetEvaluationLimits(20, 300)
    solver.Solve(cost)
    if outside: failures.append((Solver.__name__, outside[0]))

for f in failures:
    print("VIOLATION: %s: cost called at %s" % f)
assert not failures, "cost evaluated at a point with a NaN coordinate"
print("ok")
