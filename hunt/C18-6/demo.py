# C18 (borderline): impose_support must zero the non-designated weights while
# preserving the total weight and the weighted mean.  If the designated support
# currently carries zero weight (weights "positive, some zero"), all weight is
# destroyed and the positions become NaN.  (impose_unweighted has
# nullable=False for exactly this situation; impose_support has nothing.)
import numpy as np
from mystic.math.measures import impose_support, mean

x = [1., 2., 3.]; w = [0., .5, .5]
y, nw = impose_support([0], x, w)
print(y, nw)
assert nw[1] == 0 and nw[2] == 0              # designated zeros (holds)
assert abs(sum(nw) - sum(w)) < 1e-12, "total weight %r, was %r" % (sum(nw), sum(w))
assert abs(mean(y, nw) - mean(x, w)) < 1e-12
print('ok')
