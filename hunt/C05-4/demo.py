"""C05 hunt #4: SetEvaluationLimits(maxiter=..., maxfun=..., new=True) drops the limits.

Property: limits given with new=True bound the iterations/evaluations performed
after that call.

`maxiter`/`maxfun` are the (backward compatible) spellings of `generations`/
`evaluations` accepted by SetEvaluationLimits; without new=True they work.
"""
import numpy as np
from mystic.solvers import NelderMeadSimplexSolver, DifferentialEvolutionSolver
from mystic.termination import VTR
import random

calls = [0]
def cost(x):
    calls[0] += 1
    x = np.asarray(x)
    return float(((x - 1.)**2).sum() + (x[0]*x[1] - 1.)**2) + 1.0   # never reaches VTR

def fresh(kind):
    random.seed(0); np.random.seed(0)
    if kind == 'nm':
        s = NelderMeadSimplexSolver(3); s.SetInitialPoints([0.8, 1.2, 0.7])
    else:
        s = DifferentialEvolutionSolver(3, 6); s.SetRandomInitialPoints([-2]*3, [2]*3)
    s.SetTermination(VTR(1e-30)); s.SetObjective(cost)
    for i in range(4): s.Step()
    return s

for kind in ('nm', 'de'):
    # the old spelling is honoured for total limits ...
    s = fresh(kind); s.SetEvaluationLimits(maxiter=5, maxfun=10**6); s.Solve()
    assert s.generations == 5, s.generations
    # ... and generations=/evaluations= are honoured with new=True
    s = fresh(kind); g0 = s.generations
    s.SetEvaluationLimits(generations=2, evaluations=10**6, new=True); s.Solve()
    assert s.generations == g0 + 2

    # generation limit, old spelling, new=True
    s = fresh(kind); g0 = s.generations
    s.SetEvaluationLimits(maxiter=2, maxfun=10**6, new=True); s.Solve()
    print(kind, 'maxiter=2,new=True at generation', g0, '-> stopped at', s.generations, s.Terminated(info=True))
    assert s.generations - g0 <= 2, "%s: %d iterations after SetEvaluationLimits(maxiter=2, new=True)" % (kind, s.generations - g0)

    # evaluation limit, old spelling, new=True
    s = fresh(kind); e0 = s.evaluations; per_iter = 4 if kind == 'nm' else 6
    s.SetEvaluationLimits(maxiter=10**6, maxfun=10, new=True); s.Solve()
    assert s.evaluations - e0 < 10 + per_iter, "%s: %d evaluations after SetEvaluationLimits(maxfun=10, new=True)" % (kind, s.evaluations - e0)
print('ok')
