# C18: median / impose_median (and mad) for weighted samples.
# Independent checks that do not depend on a tie-breaking convention:
#  1. integer weights == repeating each sample that many times
#  2. zero-weight points do not matter
#  3. reflection symmetry: median(-x, w) == -median(x, w)
#  4. impose_median reaches its target as measured by a textbook weighted median
import numpy as np
from mystic.math.measures import median, mad, impose_median

def wmedian(x, w):
    "textbook weighted median: mid-point of the lower and upper weighted medians"
    x = np.asarray(x, float); w = np.asarray(w, float)
    o = np.argsort(x, kind='stable'); x = x[o]; w = w[o]
    x = x[w > 0]; w = w[w > 0]
    c = np.cumsum(w); h = c[-1] / 2.
    lo = x[[k for k in range(len(x)) if c[k] >= h * (1 - 1e-12)][0]]
    hi = x[[k for k in range(len(x)) if c[k] > h * (1 + 1e-12)][0]]
    return (lo + hi) / 2.

def close(a, b): return abs(a - b) <= 1e-9
fails = []
x = [1., 2., 3., 4.]
# 1. repeats
w = [5, 1, 1, 1]; rep = [1.] * 5 + [2., 3., 4.]
if not close(median(x, w), median(rep)): fails.append(('median(x,[5,1,1,1]) vs repeated data', median(x, w), median(rep)))
if not close(mad(x, w), mad(rep)): fails.append(('mad(x,[5,1,1,1]) vs repeated data', mad(x, w), mad(rep)))
# 2. zero weights: all the mass sits on the point 1.0
if not close(median(x, [1, 0, 0, 0]), 1.0): fails.append(('median(x,[1,0,0,0])', median(x, [1, 0, 0, 0]), 1.0))
if not close(median([1., 2., 3.], [1, 0, 1]), median([1., 3.])): fails.append(('median([1,2,3],[1,0,1])', median([1., 2., 3.], [1, 0, 1]), 2.0))
# 3. reflection
w = [.7, .1, .1, .1]
a = median(x, w); b = -median([-i for i in x], w)
if not close(a, b): fails.append(('reflection', a, b))
# 4. impose_median, generic positive weights, judged by the textbook median
w = [.4, .3, .2, .1]
y = impose_median(10., x, w)
if not close(wmedian(y, w), 10.): fails.append(('impose_median target', wmedian(y, w), 10.))
# unweighted control
assert close(median([1., 2., 3., 4.]), 2.5) and close(median([3., 1., 2.]), 2.)

for f in fails: print('VIOLATION %s: got %r, expected %r' % f)
assert not fails, "weighted median is not the weighted median"
print('ok')
