"""C03 / ensemble solver with a configured nested solver *instance*:
the constraints set on the ensemble are nested in the cost only; the reported
solution is not the constrained point and its energy is not its own energy."""
import numpy as np
from mystic.solvers import BuckshotSolver, LatticeSolver, NelderMeadSimplexSolver, PowellDirectionalSolver
from mystic.tools import random_seed

T = np.array([0.3, 1.7, 2.4])
calls = []
def cost(x):
    calls.append([float(i) for i in x])
    x = np.asarray(x, dtype=float)
    return float(np.sum((x - T)**2))

def constraint(x):              # pure, deterministic, idempotent: pin x0 = 1
    y = [float(i) for i in x]
    y[0] = 1.0
    return y

lo, hi = [-2., -5., -5.], [2., 5., 5.]   # the constraint maps the box into itself

bad = []
for Ens, kw in ((BuckshotSolver, dict(npts=4)), (LatticeSolver, dict(nbins=[2, 1, 2]))):
    for Nested in (NelderMeadSimplexSolver, PowellDirectionalSolver):
        random_seed(5)
        del calls[:]
        solver = Ens(3, **kw)
        solver.SetNestedSolver(Nested(3))        # a solver instance, as the docstring allows
        solver.SetStrictRanges(lo, hi)
        solver.SetConstraints(constraint)        # in force before the first iteration
        solver.SetEvaluationLimits(generations=30)
        solver.Solve(cost)
        x = [float(i) for i in solver.bestSolution]
        e = float(solver.bestEnergy)
        ok_x = constraint(x) == x
        ok_e = abs(float(np.sum((np.array(x) - T)**2)) - e) <= 1e-12
        print(Ens.__name__, Nested.__name__, 'best', x, 'energy', e,
              'constrained' if ok_x else 'NOT constrained',
              'energy ok' if ok_e else 'energy is not cost(best)')
        if not (ok_x and ok_e): bad.append((Ens.__name__, Nested.__name__))

assert not bad, "reported solution violates the constraints / energy mismatch: %s" % bad
