"""TimeLimits rebuilt from its reported state does not behave like the original: its clock restarts."""
import time
from mystic.solvers import NelderMeadSimplexSolver
import mystic.termination as mt
from mystic.termination import TimeLimits

solver = NelderMeadSimplexSolver(2)
solver.SetInitialPoints([1., 1.])

for system in (None, True):
    orig = TimeLimits(seconds=0.2, system=system)
    assert orig(solver) is False
    time.sleep(0.3)                                    # the limit has now elapsed
    rebuilt = mt.type(orig)(**mt.state(orig)[orig.__doc__])
    assert rebuilt.__doc__ == orig.__doc__             # same type, same keyword settings
    a, b = orig(solver), rebuilt(solver)
    print("system=%s: original -> %s, rebuilt -> %s" % (system, a, b))
    assert a is True
    assert a == b, "rebuilt TimeLimits disagrees with the original for the same solver at the same moment"
print("ok")
