"""with_spread / with_variance on a constant vector (length >= 2) and normalized on a zero-sum vector do not
reach the (non-empty) target set: they return NaNs resp. all zeros."""
import warnings
warnings.simplefilter('ignore')
from math import isnan
from mystic.constraints import with_spread, with_variance, normalized
from mystic.math.measures import spread, variance

identity = lambda x: x
failures = []
y = with_spread(2.0)(identity)([1., 1., 1.]);   print('with_spread  ', y)
if any(isnan(v) for v in y) or abs(spread(y) - 2.0) > 1e-9: failures.append(('spread', y))
y = with_variance(2.0)(identity)([1., 1., 1.]); print('with_variance', y)
if any(isnan(v) for v in y) or abs(variance(y) - 2.0) > 1e-9: failures.append(('variance', y))
y = normalized(1.0)(identity)([2., -2.]);       print('normalized   ', y)
if abs(sum(y) - 1.0) > 1e-9: failures.append(('sum', y))
assert not failures, failures
