"""C15: a condition that divides by zero must yield an infinite penalty,
for every penalty type and also when the evaluation point is an ndarray
(which is what every mystic solver passes to the cost function)."""
import warnings
import numpy as np
from mystic import penalty as mp

warnings.simplefilter('ignore')   # numpy only *warns* on x/0
TYPES = ['quadratic_equality', 'linear_equality', 'uniform_equality',
         'uniform_inequality', 'quadratic_inequality', 'linear_inequality',
         'barrier_inequality', 'lagrange_equality', 'lagrange_inequality']

def condition(x):            # divides by zero when x[1] == 0
    return x[0] / x[1]

bad = []
for t in TYPES:
    p = getattr(mp, t)(condition)(lambda x: 0.)
    for num in (1., 0., -1.):
        as_list = p([num, 0.])                 # python floats: ZeroDivisionError
        as_array = p(np.array([num, 0.]))      # ndarray: inf / nan, no exception
        assert as_list == np.inf, (t, num, as_list)
        if as_array != np.inf:
            bad.append((t, num, as_array))
        e = p.error(np.array([num, 0.]))
        if e != np.inf:
            bad.append((t + '.error', num, e))
for b in bad:
    print("division by zero at ndarray point, not infinite:", b)
assert not bad, "%d (type, numerator) cases do not give an infinite penalty" % len(bad)
print("ok")
