"""C09 / hunt 7: gridpts does not return the Cartesian product when a bin other
than the last one is empty (the product is then empty).

Exits 0 if gridpts(q) == list(itertools.product(*q)) for the cases below; 1 otherwise.
"""
import itertools
from mystic.math.grid import gridpts

bad = []
for q in ([[1, 2], [3, 4]],            # sanity
          [[1, 2], []],                # empty last bin  -> []
          [[], [1, 2]],                # empty first bin -> must be [] as well
          [[1, 2], [], [3]],           # empty middle bin
          [[], [1, 2], [3, 4]]):
    got = gridpts(q)
    ref = [list(p) for p in itertools.product(*q)]
    print("q=%s gridpts=%s product=%s" % (q, got, ref))
    if sorted(got) != sorted(ref): bad.append(q)
assert not bad, "gridpts is not the Cartesian product for %s" % bad
print("OK")
