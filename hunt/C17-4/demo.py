"""coupler.not_ of a stacked (nested-decorator) penalty only negates the outermost
condition, not the region the whole member accepts."""
from mystic.penalty import quadratic_equality, linear_inequality
from mystic.coupler import not_

# documented way to apply several penalties: stack the decorators
@quadratic_equality(lambda x: x[0] - 1.0)
@quadratic_equality(lambda x: x[1] - 2.0)
def member(x):
    return 0.0
# member accepts exactly x == [1, 2]
assert member([1., 2.]) == 0.0
assert member([1., 0.]) > 0 and member([0., 2.]) > 0 and member([0., 0.]) > 0

q = not_(member)
for x in ([1., 2.], [1., 0.], [1., -7.], [0., 2.], [0., 0.]):
    accepted = (member(x) == 0.0)
    assert (q(x) != 0.0) == accepted, \
        "x=%r: member %s it (p=%r) but not_(member)=%r" % (
            x, "accepts" if accepted else "rejects", member(x), q(x))

# inequality flavour: member accepts the box 0<=x0<=1 (two stacked inequalities)
@linear_inequality(lambda x: x[0] - 1.0)
@linear_inequality(lambda x: 0.0 - x[0])
def box(x):
    return 0.0
qb = not_(box)
for v in (-2., -0.5, 0.5, 0.9, 1.5):
    interior = 0.0 < v < 1.0
    assert (qb([v]) != 0.0) == interior, (v, box([v]), qb([v]))
print("ok")
