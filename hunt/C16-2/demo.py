"""impose_as: when the group key chosen by tools.connected is not the untracked source,
the source entry is overwritten, and with an offset the result drifts on every application."""
from mystic.constraints import impose_as

identity = lambda x: x
failures = []

# pair (i,j): x[j] tracks x[i] (+offset)   [cf. docstring: impose_as([(0,1),...],10)([9,8,..]) -> [9,19,..]]
# chain 0 -> 1 -> 2 given in two different (equally legal) orders of the same mask
x = [1., 2., 3.]
a = impose_as([(0, 1), (1, 2)])(identity)(list(x))
b = impose_as([(1, 2), (0, 1)])(identity)(list(x))
print('offset=0 ordered  :', a)
print('offset=0 reordered:', b)
# entry 0 tracks nothing => it is unselected and must stay 1.0 ; the others must equal it
if b[0] != x[0]: failures.append(('source entry 0 overwritten', b))
if a != b: failures.append(('result depends on the order pairs are listed', a, b))

# with an offset: x1 = x0+10, x2 = x1+10 ; apply twice == apply once
for mask in ([(1, 2), (0, 1)], {(3, 1), (0, 3)}):
    c = impose_as(mask, 10)(identity)
    x = [1., 2., 3., 4.]
    y1 = c(list(x)); y2 = c(list(y1)); y3 = c(list(y2))
    print('offset=10', mask, ':', y1, y2, y3)
    # y1 is in the target set (every tracked entry == partner + 10) ...
    assert all(y1[j] == y1[i] + 10 for (i, j) in mask)
    # ... so a second application must not change it
    if y2 != y1: failures.append(('not idempotent', mask, y1, y2))

assert not failures, failures
