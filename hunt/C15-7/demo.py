"""C15 (borderline; combinators coupler.and_/or_/additive): iter() advances and
clear() resets the iteration state through nested penalties too, stacked
penalties add, each following k*h**n, and error(x) is the violation magnitude.
Penalties combined with and_/or_/additive are cut off from iter/clear/store/
error of the combination."""
from mystic import penalty as mp
from mystic.coupler import and_, or_, additive

zero = lambda x: 0.
problems = []

# --- and_ -------------------------------------------------------------
p1 = mp.quadratic_equality(lambda x: x[0], k=3, h=2)(zero)
p2 = mp.linear_inequality(lambda x: x[1], k=7, h=3)(zero)
both = and_(p1, p2)
x = [0.5, 0.25]
assert both(x) == p1(x) + p2(x) == 3*.25 + 2*7*.25      # n = 0: they add
both.iter()
if (p1.iteration(), p2.iteration()) != (1, 1):
    problems.append(('and_: iter() not propagated', p1.iteration(), p2.iteration()))
expected = 3*2*.25 + 2*7*3*.25      # each penalty with its own k*h**1
if abs(both(x) - expected) > 1e-12:
    problems.append(('and_: value after iter()', both(x), expected))
# error: violation magnitude sqrt(.5**2 + .25**2), independent of k
mag = (0.5**2 + 0.25**2)**.5
both.clear()
if abs(both.error(x) - mag) > 1e-12:
    problems.append(('and_: error() is the penalty amount', both.error(x), mag))
# clear() through the combination
p1.iter(); p2.iter(); both.clear()
if (p1.iteration(), p2.iteration()) != (0, 0):
    problems.append(('and_: clear() not propagated', p1.iteration(), p2.iteration()))
p1.clear(); p2.clear()

# --- additive ---------------------------------------------------------
cost = lambda x: 1.0
stacked = mp.linear_inequality(lambda x: x[1], k=7, h=3)(additive(p1)(cost))
assert stacked(x) == 1.0 + 3*.25 + 2*7*.25               # n = 0: they add
stacked.iter()
if p1.iteration() != 1:
    problems.append(('additive: iter() not propagated', p1.iteration()))
if abs(stacked.error(x) - mag) > 1e-12:
    problems.append(('additive: error() ignores nested penalty', stacked.error(x), mag))

for pr in problems:
    print(pr)
assert not problems
print("ok")
