# C12 hunt 6 (borderline): multiplying through by a variable expression that is not a denominator is done without sign cases
cases = [('x0/x1 > x0', {}),                      # x0 cancels: result does not mention x0 at all
         ('x0/x1 + 3*x0 > 0', {'target': ['x0']}),  # coefficient of x0 is (1 + 3*x1)/x1: sign change at x1=-1/3 missed
         ('-3*x0 - 4 - x0/x1 < -4\n-1*x0 < 0', {'target': ['x0', 'x1']})]
import os, sys, random
sys.path.insert(0, os.path.dirname(os.path.abspath(__file__)))
from fractions import Fraction as F
from evalref import holds
from mystic.symbolic import simplify

grid = [F(i, 4) for i in range(-20, 21)]
bad = []
for s, kw in cases:
    random.seed(0)
    try:
        res = simplify(s, all=True, **kw)
    except Exception as err:       # no result returned -> nothing to check
        print(repr(s), 'raised', repr(err)[:80]); continue
    diff = [(a, b) for a in grid for b in grid if holds(s, {'x0': a, 'x1': b}) != holds(res, {'x0': a, 'x1': b})]
    if diff:
        a, b = diff[0]
        bad.append((s, kw, res, len(diff), len(grid)**2, str(a), str(b), holds(s, {'x0': a, 'x1': b})))
for b in bad:
    print('simplify(%r, all=True, **%r)\n  -> %r\n  differs from the input at %d of %d grid points, e.g. x0=%s x1=%s (input %s)' % b)
assert not bad, 'the returned cases do not have the solution set of the input'
print('ok')
