"""C07 hunt #1: an ensemble gives different results in step-wise and in
run-to-completion mode when the termination contains a Collapse* condition.

The members of the ensemble (Nelder-Mead, no random numbers while running)
apply the collapse and continue when they are run to completion (Solve), but
in step mode (Step / Solve(step=True)) nobody ever applies the collapse, so
every member just stops at the collapse condition.
"""
import numpy
from mystic.solvers import LatticeSolver, NelderMeadSimplexSolver
from mystic.termination import Or, ChangeOverGeneration, CollapseAt
from mystic.tools import random_seed


def cost(x):
    # minimum at (1.05, 2.0); x[0] settles within 0.2 of the target 1.0
    return float((x[0] - 1.05)**2 + (x[1] - 2.0)**2)


def build():
    random_seed(123)
    solver = LatticeSolver(2, [2, 2])
    solver.SetNestedSolver(NelderMeadSimplexSolver)
    solver.SetStrictRanges([0., 0.], [4., 4.])
    solver.SetEvaluationLimits(500, 5000)
    solver.SetTermination(Or(ChangeOverGeneration(1e-10, 30),
                             CollapseAt(target=1.0, tolerance=0.2,
                                        generations=5)))
    solver.SetObjective(cost)
    return solver


def result(solver):
    return dict(best=numpy.asarray(solver.bestSolution, float).tolist(),
                bestE=float(solver.bestEnergy),
                evals=int(solver.evaluations), gens=int(solver.generations),
                all_iters=[int(i) for i in solver._all_iters],
                all_evals=[int(i) for i in solver._all_evals],
                allX=[numpy.asarray(x, float).tolist()
                      for x in solver._all_bestSolution],
                msg=solver.Terminated(info=True))


# run-to-completion mode
a = build(); a.Solve(); ra = result(a)
# step-wise mode, driven by the user
b = build()
while not b.Step(): pass
rb = result(b)
# step-wise mode, driven by Solve
c = build(); c.Solve(step=True); rc = result(c)

for name, r in (('solve', ra), ('step', rb), ('solve(step=True)', rc)):
    print(name)
    for k, v in r.items(): print('   ', k, v)

assert rb == rc, "Step loop and Solve(step=True) differ"
assert ra == rb, "ensemble result differs between run-to-completion and step mode"
print("OK")
