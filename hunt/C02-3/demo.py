"""C02 hunt 3: an ensemble solver driven with Step() ignores strict ranges that
are installed or changed between iterations: the nested solvers keep the old
box, and the user's cost is evaluated outside the new one.

exit 0 if the property holds, exit 1 (AssertionError) otherwise.
"""
import sys, types, warnings
warnings.filterwarnings('ignore')
import numpy as np

# recorder in an importable module, so dill copies the cost by reference
_src = '''
import numpy as np
LO = None; HI = None; OUT = []; N = [0]
def reset(lo, hi):
    global LO, HI
    LO = np.asarray(lo, float); HI = np.asarray(hi, float); del OUT[:]; N[0] = 0
def cost(x):
    x = np.asarray(x, float); N[0] += 1
    if not np.all((x >= LO) & (x <= HI)):
        OUT.append(x.copy())
    return float(np.sum((x - 0.3)**2))
'''
rec = types.ModuleType('c02_hunt3_rec'); exec(_src, rec.__dict__)
sys.modules['c02_hunt3_rec'] = rec

from mystic.solvers import LatticeSolver, BuckshotSolver
from mystic.solvers import NelderMeadSimplexSolver, PowellDirectionalSolver
from mystic.tools import random_seed
inf = np.inf

failures = []
for Ensemble in (LatticeSolver, BuckshotSolver):
  for Nested in (NelderMeadSimplexSolver, PowellDirectionalSolver):
    for first in (([-2.0, -2.0], [2.0, 2.0]), None):   # changed / newly installed
        random_seed(1)
        solver = Ensemble(2, 4)
        solver.SetNestedSolver(Nested)
        if first is None:
            rec.reset([-inf, -inf], [inf, inf])
        else:
            rec.reset(*first)
            solver.SetStrictRanges(list(first[0]), list(first[1]))
        solver.SetEvaluationLimits(50, 2000)
        solver.SetObjective(rec.cost)
        for i in range(3):
            solver.Step()
        assert not rec.OUT
        # change the box between iterations
        lo, hi = [1.0, 1.0], [2.0, 2.0]
        rec.reset(lo, hi)
        solver.SetStrictRanges(list(lo), list(hi))
        for i in range(5):
            solver.Step()
        if rec.OUT:
            failures.append((Ensemble.__name__, Nested.__name__,
                             'changed' if first else 'installed',
                             len(rec.OUT), rec.N[0], rec.OUT[0]))

for f in failures:
    print("VIOLATION: %s/%s ranges %s between Steps: %d of %d cost calls outside [1,2]^2, e.g. %s" % f)
assert not failures, "cost evaluated outside the strict box set between iterations"
print("ok")
