"""C20 hunt 9: LoggingMonitor(all=False), driven the way every solver drives its
generation monitor - monitor(best_parameter_vector, best_cost, id) - logs only the FIRST
parameter of each iteration; the log cannot be read back as the recorded parameters."""
import os, tempfile
from mystic.monitors import LoggingMonitor
from mystic.munge import logfile_reader

d = tempfile.mkdtemp()
failures = []
for all_ in (True, False):
    log = os.path.join(d, 'log_%s.txt' % all_)
    mon = LoggingMonitor(1, log, new=True, all=all_)
    mon([1.0, 2.0, 3.0], 4.0)
    mon([5.0, 6.0, 7.0], 8.0)
    assert mon.x == [[1.0, 2.0, 3.0], [5.0, 6.0, 7.0]] and mon.y == [4.0, 8.0]
    step, params, cost = logfile_reader(log, iter=True)
    if not (step == [(0,), (1,)] and cost == mon.y):
        failures.append('all=%s: steps/costs %r %r' % (all_, step, cost))
    if not (params == mon.x):
        failures.append('all=%s: recorded params %r, log gives %r' % (all_, mon.x, params))

# with a real solver
from mystic.solvers import NelderMeadSimplexSolver
from mystic.models import rosen
log = os.path.join(d, 'solver.txt')
mon = LoggingMonitor(1, log, new=True, all=False)
solver = NelderMeadSimplexSolver(3)
solver.SetInitialPoints([0.5, 1.5, 0.8])
solver.SetGenerationMonitor(mon)
solver.SetEvaluationLimits(generations=5)
solver.Solve(rosen, disp=0)
step, params, cost = logfile_reader(log, iter=True)
if not (params == [list(map(float, x)) for x in mon.x]):
    failures.append('solver, all=False: recorded params[0] %r, log gives %r' % (mon.x[0], params[0]))

for msg in failures: print(msg)
assert not failures, "with all=False the log holds one parameter per iteration"
print('ok')
