"""C04 hunt 7: DifferentialEvolutionSolver(2) hand the callback their live
bestSolution array, which is later overwritten in place: the arguments a
(non-copying) callback received for earlier iterations change afterwards."""
import numpy as np
from mystic.solvers import DifferentialEvolutionSolver, DifferentialEvolutionSolver2
from mystic.monitors import Monitor
from mystic.termination import VTR
from mystic.tools import random_seed

def rosen(x):
    x = np.asarray(x, dtype=float)
    return float(np.sum(100.0*(x[1:]-x[:-1]**2)**2 + (1-x[:-1])**2))

for Solver in (DifferentialEvolutionSolver, DifferentialEvolutionSolver2):
    random_seed(3)
    solver = Solver(3, 8)
    solver.SetRandomInitialPoints([-2]*3, [2]*3)
    stepmon = Monitor()
    solver.SetGenerationMonitor(stepmon)
    solver.SetTermination(VTR(1e-12))
    solver.SetEvaluationLimits(generations=10)
    received = []                       # the arguments, exactly as received
    solver.Solve(rosen, callback=received.append)
    assert len(received) == len(stepmon) == solver.generations + 1   # once per iteration
    wrong = [k for k, xk in enumerate(received)
             if [float(i) for i in xk] != [float(i) for i in stepmon.x[k]]]
    print(Solver.__name__, "distinct objects received:", len(set(id(x) for x in received)),
          " iterations whose received argument is no longer that iteration's best:", wrong)
    assert not wrong, "callback arguments of iterations %s were mutated after the call" % wrong
print("OK")
