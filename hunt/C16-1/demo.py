"""impose_bounds on an integer-typed input vector with non-integer interval ends:
the clipped value is truncated back to int, so the result lies OUTSIDE the interval."""
import numpy as np
from mystic.constraints import impose_bounds

identity = lambda x: x
lo, hi = 0.5, 5.5
failures = []
for x in ([0, 3, 10], np.array([0, 3, 10])):
    c = impose_bounds((lo, hi))(identity)
    y = list(c(x.copy() if isinstance(x, np.ndarray) else list(x)))
    print(type(x).__name__, list(x), '->', y)
    # property: every (selected) entry lands inside the interval ...
    if not all(lo <= v <= hi for v in y):
        failures.append(('outside', y))
    # ... and an entry that had to be clipped sits at an interval end
    for xi, yi in zip(x, y):
        if not (lo <= xi <= hi) and yi not in (lo, hi):
            failures.append(('not at end', xi, yi))
    # ... and entries already inside are unchanged
    assert y[1] == 3

# the same on the random (clip=False) path: value must land inside [0.25, 0.75]
np.random.seed(0)
y = list(impose_bounds((0.25, 0.75), clip=False)(identity)([7, 0, -3]))
print('clip=False:', y)
if not all(0.25 <= v <= 0.75 for v in y):
    failures.append(('outside (clip=False)', y))

assert not failures, failures
