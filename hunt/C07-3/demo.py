"""C07 hunt #3: NelderMeadSimplexSolver with strict ranges throws its simplex
away and rebuilds it around the best vertex whenever the objective is
re-decorated after generation 0.  The re-decoration is triggered by things
that do not change the configuration (same objective handed to each Step as
a bound method; a Set* call with the value already set), so two runs with the
same start point and the same settings follow different trajectories.
(No random numbers are involved: Nelder-Mead is deterministic.)
"""
import numpy
from mystic.solvers import NelderMeadSimplexSolver
from mystic.termination import VTR


class Model(object):
    def cost(self, x):
        x = numpy.asarray(x)
        return float(((x - numpy.array([1.2, 2.7, 0.4]))**2).sum()
                     + 0.3*numpy.sin(3*x).sum())

N = 12


def build():
    s = NelderMeadSimplexSolver(3)
    s.SetInitialPoints([0.8, 3.1, 1.9])
    s.SetStrictRanges([0,0,0], [5,5,5])
    s.SetEvaluationLimits(1000, 100000)
    s.SetTermination(VTR(-1e9))                # never stops within N steps
    return s


def snap(s):
    return (numpy.array([numpy.asarray(p, float) for p in s.population]).tolist(),
            numpy.asarray(s.popEnergy, float).tolist(),
            numpy.asarray(s.bestSolution, float).tolist(), float(s.bestEnergy),
            int(s.evaluations), int(s.generations))

m = Model()
s = build(); s.SetObjective(m.cost)
ref = []
for i in range(N): s.Step(); ref.append(snap(s))

s = build()
a = []
for i in range(N): s.Step(m.cost); a.append(snap(s))

s = build(); s.SetObjective(m.cost)
b = []
for i in range(N):
    if i == 6: s.SetPenalty(None)              # there is no penalty anyway
    s.Step(); b.append(snap(s))

failures = []
for name, run in (('(a) Step(obj.cost)', a), ('(b) no-op SetPenalty', b)):
    first = next((i for i in range(N) if run[i] != ref[i]), None)
    print(name, 'first differing step:', first)
    if first is not None:
        print('   reference simplex:', ref[first][0])
        print('   this run  simplex:', run[first][0])
        failures.append((name, first))
assert not failures, "same start/settings, different trajectory: %s" % failures
print("OK")
