"""synchronized with a (index, scale) / (index, function) mask value: works for a list,
silently does nothing for a numpy array."""
import numpy as np
from mystic.tools import synchronized

identity = lambda x: x
c = synchronized({3: (1, -1), 0: (2, lambda v: v + 100)})(identity)
xl = [0., 1., 2., 3., 4.]
yl = c(list(xl))
ya = c(np.array(xl))
print('list :', yl)
print('array:', ya)
assert yl == [102., 1., 2., -1., 4.]          # documented behaviour, OK for a list
# property: the addressed entries are tied, whatever the container type
assert list(ya) == yl, ('array input not tied', list(ya))
