"""scenario.update(params) must store the values that params addresses.

A scenario built without values (or with fewer values than are supplied)
silently drops / truncates the values part of the parameter vector.
"""
from mystic.math.discrete import compose, scenario

c = compose([[1., 2., 3.], [4., 5.]], [[.2, .3, .5], [.4, .6]])
s = scenario(c)                       # shape (3,2), 6 points, no values yet
assert s.values == []

wx = [.1, .1, .8, 7., 8., 9., .5, .5, 10., 11.]   # 2*sum(pts) = 10 entries
vals = [1., 2., 3., 4., 5., 6.]                   # one value per point
params = wx + vals

s.update(params)

# weights/positions part is honoured ...
assert s.flatten(all=False) == wx, s.flatten(all=False)
# ... and update() says "additional values ... will be saved as scenario.values"
assert s.values == vals, "values addressed by params were not stored: %r" % (s.values,)

# the same vector, loaded into a fresh scenario, does carry the values, so
# flatten() of the updated scenario must round-trip to the given params
assert s.flatten(all=True) == scenario().load(params, (3, 2)).flatten(all=True)
print("ok")
