"""C09 / hunt 3: the user's objective is copied by value into every member, so the
evaluations the ensemble reports are not calls of the objective the user passed.

Exits 0 if the number of calls seen by the user's objective equals the total
evaluation count reported by the ensemble; exits 1 otherwise.
"""
import numpy as np
from mystic.solvers import LatticeSolver, BuckshotSolver, SparsitySolver
from mystic.solvers import NelderMeadSimplexSolver
from mystic.tools import random_seed

class Objective(object):
    "a callable objective that counts how often it is called"
    def __init__(self):
        self.ncalls = 0
    def __call__(self, x):
        self.ncalls += 1
        return float(sum((np.asarray(x) - 0.3)**2))

def make_closure():
    "the same thing as a closure"
    n = [0]
    def cost(x):
        n[0] += 1
        return float(sum((np.asarray(x) - 0.3)**2))
    return cost, n

bad = []
for cls, arg in ((LatticeSolver, [2, 2]), (BuckshotSolver, 4), (SparsitySolver, 3)):
    for step in (False, True):
        random_seed(123)
        obj = Objective()
        s = cls(2, arg)
        s.SetNestedSolver(NelderMeadSimplexSolver)   # default serial map
        s.SetStrictRanges([-2, -2], [2, 2])
        s.Solve(obj, step=step, disp=0)
        print("%-15s step=%-5s reported total=%4d  sum(members)=%4d  calls seen by the objective=%d"
              % (cls.__name__, step, s._total_evals, sum(s._all_evals), obj.ncalls))
        if obj.ncalls != s._total_evals: bad.append((cls.__name__, step))

random_seed(123)
cost, n = make_closure()
s = LatticeSolver(2, [2, 2]); s.SetStrictRanges([-2, -2], [2, 2]); s.Solve(cost, disp=0)
print("closure: reported total=%d calls seen=%d" % (s._total_evals, n[0]))
if n[0] != s._total_evals: bad.append('closure')

assert not bad, "reported evaluations are not calls of the given objective: %s" % bad
print("OK")
