"""coupler.not_ drops the args/kwds the member penalty was built with, so it negates a
different region than the one the member accepts."""
from mystic.penalty import quadratic_equality, linear_inequality
from mystic.coupler import not_

def mean_minus(x, target=0.0):            # the example from the mystic.penalty docstring
    return sum(x)/len(x) - target

# member accepts exactly the vectors with mean 5
p = quadratic_equality(condition=mean_minus, kwds={'target': 5.0})(lambda x: 0.0)
assert p([3., 4., 5., 6., 7.]) == 0.0 and p([1., 2., 3., 4., 5.]) > 0 and p([0., 0.]) > 0

q = not_(p)
for x in ([3., 4., 5., 6., 7.], [5., 5.], [1., 2., 3., 4., 5.], [0., 0.], [-1., 1.]):
    accepted = (p(x) == 0.0)
    penalised = (q(x) != 0.0)
    # equality member: the accepted region is its own interior for this purpose
    assert penalised == accepted, \
        "x=%r: member %s it (p=%r) but not_(member)=%r" % (
            x, "accepts" if accepted else "rejects", p(x), q(x))

# same with positional args and an inequality member: accepts x[0] >= 3
def lower(x, lo):
    return lo - x[0]
pi = linear_inequality(lower, args=(3.0,))(lambda x: 0.0)
qi = not_(pi)
for v in (0., 2.9, 3., 3.1, 10.):
    interior = (lower([v], 3.0) < 0)
    assert (qi([v]) != 0.0) == interior, (v, qi([v]))
print("ok")
