"""product_measure.weights must be the products of the factor weights.

With (unnormalised) python-int factor weights the products are formed by
numpy.prod in fixed-width int64 and silently wrap around.
"""
from mystic.math.discrete import compose

W = 3000000            # e.g. a count used as an (unnormalised) weight
c = compose([[1., 2.], [3., 4.], [5., 6.]], [[W, 1], [W, 1], [W, 1]])

exact = [a * b * d for d in (W, 1) for b in (W, 1) for a in (W, 1)]  # documented order
got = [int(w) for w in c.weights]
assert got == exact, "weights[0] = %s, expected %s" % (got[0], exact[0])

# total mass = product of the factor masses
total = 1
for m in c.mass: total *= m
assert sum(got) == total, (sum(got), total)
print("ok")
