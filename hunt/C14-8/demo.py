"""C14 hunt 8 (borderline): the compiled functions run eval()/exec() of the
expression inside a function whose only local is x; a generator expression or
lambda in the text opens a nested scope that cannot see x -> NameError."""
from mystic.symbolic import (generate_solvers, generate_constraint,
                             generate_conditions, generate_penalty)
fails = []
w = [1., 2., 3.]
for text in ("sum(w*v for w,v in zip([1.,2.,3.],[x0,x1,x2])) <= 4",   # fine: x only in the outermost iterable
             "sum(x0*i for i in range(3)) <= 4",                       # x used in the element expression
             "max(map(lambda i: x0*i, [1,2])) <= 4"):
    for x in ([1., 0.5, 0.], [3., 3., 3.]):
        names = dict(('x%d' % i, v) for i, v in enumerate(x))
        lhs, rhs = text.split('<=')
        f = eval('lambda %s: %s - (%s)' % (','.join(sorted(names)), lhs, rhs))
        want = f(**names)                              # independent evaluation of lhs - rhs
        try:
            ineq, eq = generate_conditions(text, nvars=3)
            got = ineq[0](x); p = generate_penalty((ineq, eq))(x)
            ok = abs(got - want) < 1e-12 and ((p == 0) if want <= 0 else (p > 0))
            print(text, x, 'value', got, 'want', want, 'penalty', p)
        except Exception as e:
            ok = False
            print(text, x, 'want', want, 'raised %s: %s' % (type(e).__name__, e))
        if not ok: fails.append((text, x))
assert not fails, fails
