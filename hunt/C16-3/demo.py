"""impose_as with an offset: the offset is added to a tracked entry even when its partner
index is out of range (so nothing was tied) -- the entry drifts on every application."""
from mystic.constraints import impose_as

identity = lambda x: x
c = impose_as([(7, 1)], 10)(identity)     # entry 1 tracks entry 7 (+10); entry 7 does not exist for len 3
x = [1., 2., 3.]
y1 = c(list(x)); y2 = c(list(y1))
print(y1, y2)
# with offset=None the out-of-range pair is (correctly) ignored:
assert impose_as([(7, 1)])(identity)(list(x)) == x
# property: an out-of-range selection addresses nothing, so x is unchanged, and twice == once
assert y2 == y1, ('not idempotent', y1, y2)
assert y1 == x, ('entry changed although its partner does not exist', y1)
