# C18 (borderline): impose_spread promises "the desired weighted range".
# With some weights zero, the range of the measure is the range of its support
# (what ess_ptp reports).  impose_spread scales by the range of ALL points.
from mystic.math.measures import impose_spread, ess_ptp, mean, support

x = [1., 2., 10.]; w = [.5, .5, 0.]
y = impose_spread(3., x, w)
ident = lambda v: v
wrange = ess_ptp(ident, y, w)                 # range over the support
print('result', y, 'support range', wrange, 'all-points range', max(y) - min(y))
assert abs(mean(y, w) - mean(x, w)) < 1e-12   # mean is kept (holds)
assert abs(wrange - 3.) < 1e-9, "weighted range is %r, not 3.0" % wrange
print('ok')
