"""C06 hunt #2: the periodic restart file of an ensemble solver (LatticeSolver,
BuckshotSolver, ...) driven by Step()/Solve(step=True) does not hold the
ensemble solver, so the run cannot be resumed from it.

Run:  PYTHONPATH=/tmp/wt/C06 /venv/bin/python /tmp/wt/C06/_hunt/2/demo.py
exit 0 = property holds, exit 1 (AssertionError) = violated.
"""
import os, random, shutil, tempfile
import numpy as np
from mystic.solvers import LatticeSolver, BuckshotSolver, LoadSolver
from mystic.monitors import Monitor
from mystic.termination import VTR
from mystic.models import rosen

def rng_get(): return random.getstate(), np.random.get_state()
def rng_set(s): random.setstate(s[0]); np.random.set_state(s[1])

def observe(s):
    f = lambda a: np.asarray(a, dtype=float).tolist()
    return dict(bestSolution=f(s.bestSolution), bestEnergy=float(s.bestEnergy),
                population=f(s.population), popEnergy=f(s.popEnergy),
                generations=s.generations, evaluations=s.evaluations,
                stepmon_x=f(s._stepmon.x), stepmon_y=f(s._stepmon.y))

def make(cls, fn):
    s = cls(2, 4)                        # 4 nested Nelder-Mead solvers
    s.SetStrictRanges([-2., -2.], [2., 2.])
    s.SetEvaluationMonitor(Monitor())
    s.SetGenerationMonitor(Monitor())
    s.SetObjective(rosen)
    s.SetTermination(VTR(1e-10))
    s.SetSaveFrequency(1, fn)            # restart file after every generation
    return s

NSTEP, CRASH = 8, 3
failures = []
for cls in (LatticeSolver, BuckshotSolver):
    tmp = tempfile.mkdtemp()
    try:
        fn = os.path.join(tmp, 'restart.pkl')
        random.seed(3); np.random.seed(3)
        s = make(cls, fn)
        for i in range(NSTEP):
            s.Step()
            if i == CRASH:               # the restart file as it is after this generation
                shutil.copy(fn, os.path.join(tmp, 'crash.pkl')); rs = rng_get()
        ref = observe(s)                 # the uninterrupted run
        r = LoadSolver(os.path.join(tmp, 'crash.pkl'))
        rng_set(rs)
        for i in range(CRASH+1, NSTEP): r.Step()
        got = observe(r)
        d = [k for k in ref if ref[k] != got[k]]
        if d:
            failures.append(cls.__name__)
            print("%s: restart file holds a %s; resumed run differs in %s" % (cls.__name__, type(r).__name__, d))
            print("   uninterrupted: best %r evaluations %d" % (ref['bestEnergy'], ref['evaluations']))
            print("   resumed      : best %r evaluations %d" % (got['bestEnergy'], got['evaluations']))
    finally:
        shutil.rmtree(tmp)
assert not failures, "resuming an ensemble solver from its periodic restart file does not reproduce the run"
print("ok")
