"""C04 hunt 1: Powell -- a run that is stopped without taking a further step
(Solve/Step finds the solver already terminated) never logs its last generation."""
import numpy as np
from mystic.solvers import PowellDirectionalSolver
from mystic.monitors import Monitor
from mystic.termination import VTR

def rosen(x):
    x = np.asarray(x, dtype=float)
    return float(np.sum(100.0*(x[1:]-x[:-1]**2)**2 + (1-x[:-1])**2))

solver = PowellDirectionalSolver(3)
solver.SetInitialPoints([0.8, 1.2, 0.7])
stepmon = Monitor()
solver.SetGenerationMonitor(stepmon)
solver.SetTermination(VTR(1e-12))
seen = []
cb = lambda xk: seen.append(list(np.array(xk, dtype=float)))

# generation 0 (initial evaluation) + two iterations; not terminated yet
for i in range(3):
    msg = solver.Step(rosen, callback=cb)
    assert not msg, msg
assert solver.generations == 2 and len(seen) == 3

# reconfigure: total limit of 2 generations -> the solver is now terminated
solver.SetEvaluationLimits(generations=2)
solver.Solve(callback=cb)           # returns at once: the run is stopped
assert solver.Terminated(), "run should be stopped"
assert len(seen) == 3               # no further iteration was made
assert solver.generations == 2

# the property: a stopped run's step monitor holds one record per generation
# (generations + the initial record), ending in the reported result
best_x = list(np.array(solver.bestSolution, dtype=float))
best_y = float(solver.bestEnergy)
print("generations        :", solver.generations)
print("len(step monitor)  :", len(stepmon))
print("step monitor y     :", [float(y) for y in stepmon.y])
print("energy_history     :", [float(y) for y in solver.energy_history])
print("reported bestEnergy:", best_y)
assert len(stepmon) == solver.generations + 1, \
    "step monitor has %d records for %d generations (+1 initial)" % (len(stepmon), solver.generations)
assert float(stepmon.y[-1]) == best_y, "last step-monitor record is not the reported result"
assert list(np.array(stepmon.x[-1], dtype=float)) == best_x
print("OK")
