"""unique / impose_unique with full={'min':a,'max':b,'type':int}: accepted values are a <= x < b,
but a duplicate may be replaced by b itself -- a value the same call signature then rejects."""
import random
from mystic.constraints import impose_unique, unique

identity = lambda x: x
spec = lambda: {'min': 0, 'max': 4, 'type': int}   # fresh dict each time (the known 'type' deletion is not the point)

# what the function itself accepts as allowed: 0 <= x < 4  (4 is rejected as *input*)
try:
    unique([0, 4], spec()); accepts_max = True
except ValueError as e:
    print('input containing max is rejected:', e); accepts_max = False
assert not accepts_max

random.seed(0)
bad = None
for trial in range(50):
    y = impose_unique(spec())(identity)([0, 1, 2, 2])
    assert len(set(y)) == len(y)
    if not all(0 <= v < 4 for v in y):          # replacement outside the allowed set
        bad = y; break
print('output:', bad)
if bad is not None:
    # and "twice == once" cannot hold: the second application raises
    try:
        impose_unique(spec())(identity)(list(bad)); second = 'ok'
    except ValueError as e:
        second = 'ValueError: %s' % e
    print('second application:', second)
assert bad is None, ('replacement value not in the allowed set', bad)
