"""C08 / DE selection: when the initial population is integer-typed (e.g. drawn with
SetSampledInitialPoints from an integer-valued distribution), a member that "loses"
against a trial is not replaced by the trial but by the trial truncated to integers,
whose energy is in general NOT lower (popEnergy keeps the trial's energy).

Property checked: whenever a member changes, the new member is the evaluated trial
vector and its energy is strictly lower than the energy of the member it replaced.
"""
import numpy as np
from mystic.solvers import DifferentialEvolutionSolver2
from mystic.math import Distribution
from mystic.termination import VTR
from mystic.strategy import Rand1Bin
from mystic.tools import random_seed

random_seed(11)
D, NP = 3, 8
c = np.array([0.3, 0.6, 0.9])
evaluated = []
def cost(x):
    x = np.array(x, dtype=float)
    f = float(np.sum((x - c)**2))
    evaluated.append((x, f))
    return f

solver = DifferentialEvolutionSolver2(D, NP)
solver.SetSampledInitialPoints(Distribution(np.random.randint, 0, 10))  # integer start points
solver.SetEvaluationLimits(10, None)

state = {}
bad = []
def check(_best):
    pop = [np.array(p, dtype=float) for p in solver.population]
    if 'pop' in state:
        for i, (old, new) in enumerate(zip(state['pop'], pop)):
            if not np.array_equal(old, new):
                was_trial = any(np.array_equal(new, x) for x, _ in evaluated[-NP:])
                lower = float(np.sum((new - c)**2)) < float(np.sum((old - c)**2))
                if not (was_trial and lower):
                    bad.append((solver.generations, i, old, new, was_trial, lower))
    state['pop'] = pop

solver.Solve(cost, VTR(1e-300), strategy=Rand1Bin, CrossProbability=0.9,
             ScalingFactor=0.8, callback=check)
for b in bad[:5]:
    print("gen %d member %d: %s -> %s  (is an evaluated trial: %s, strictly lower energy: %s)" % b)
mism = [(i, float(np.sum((np.array(p, float) - c)**2)), e)
        for i, (p, e) in enumerate(zip(solver.population, solver.popEnergy))
        if float(np.sum((np.array(p, float) - c)**2)) != e]
print("members whose recorded energy is not their energy:", mism[:3])
assert not bad, "%d replacements were not 'trial of strictly lower energy'" % len(bad)
assert not mism
print("ok")
