"""C13 hunt 6: 'xi > f' together with 'xi != g' (same left-hand variable; g does
not depend on any left-hand variable).  The strict bound is moved to f+tol without
looking at the != list, so xi can be put exactly on the forbidden value g."""
import warnings; warnings.simplefilter('ignore')
from mystic.symbolic import generate_solvers, generate_constraint

# a vector produced by an earlier, independent constraint 'x2 > x1'
first = generate_constraint(generate_solvers('x2 > x1', nvars=3))
x = list(first([0., 1., 0.]))
assert x[2] > x[1]                       # x2 = 1.000000000000002

def check(text, x):
    c = generate_constraint(generate_solvers(text, nvars=3))
    x0 = list(x)
    y = list(c(list(x)))
    assert y[1:] == x0[1:], (text, x0, y)
    return y

# non-strict version is handled (the parser looks at the != list for >=)
y = check('x0 >= x2\nx0 != x2', x)
assert y[0] >= y[2] and y[0] != y[2], y

# strict version: both relations are satisfiable (e.g. x0 = 5), and their
# left-hand variable x0 feeds nothing
y = check('x0 > x1\nx0 != x2', x)
assert y[0] > y[1], y
assert y[0] != y[2], "'x0 > x1; x0 != x2' on %s returned %s: x0 == x2" % (x, y)
print('ok')
