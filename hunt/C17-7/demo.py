"""coupler.not_ of a barrier_inequality member penalises the region the member REJECTS."""
import warnings; warnings.simplefilter('ignore')
from mystic.penalty import barrier_inequality
from mystic.coupler import not_

cond = lambda x: x[0] - 1.0                       # member accepts x0 <= 1 (interior x0 < 1)
member = barrier_inequality(cond)(lambda x: 0.0)
q = not_(member)                                  # ptype is taken from the member
for v in (-3., 0., 0.5, 1.5, 3., 5.):
    interior = cond([v]) < 0
    assert (q([v]) != 0.0) == interior, \
        "x0=%r: cond=%r (member %s) but not_(member)=%r" % (
            v, cond([v]), "accepts" if interior else "rejects", q([v]))
print("ok")
