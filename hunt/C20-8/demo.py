"""C20 hunt 8: slice/item assignment from a monitor with a different k copies the
k-scaled costs verbatim, so the assigned costs come back scaled (here: negated),
whereas extend / prepend / + convert between the two k's."""
from mystic.monitors import Monitor

def make(n, k=None, offset=0):
    m = Monitor(k=k)
    for i in range(n):
        m([float(i + offset), 0.5], float(i + offset) + 1, i + offset)
    return m

failures = []
for ka, kb in [(None, None), (-1, -1), (-1, None), (None, -1), (2, None), (None, 0.5)]:
    other = make(2, k=kb, offset=10)
    want_y = [11.0, 12.0]
    assert other.y == want_y

    # extend: the documented way; converts between k's (holds)
    mon = make(3, k=ka); mon.extend(other)
    assert mon.y == [1.0, 2.0, 3.0] + want_y, (ka, kb, mon.y)

    # the same records put in by (slice / index / list-index) assignment
    for label, assign, want in [
        ('mon[:] = other',     lambda m: m.__setitem__(slice(None), other),  want_y),
        ('mon[1:2] = other',   lambda m: m.__setitem__(slice(1, 2), other),  [1.0] + want_y + [3.0]),
        ('mon[0] = other',     lambda m: m.__setitem__(0, other),            want_y + [2.0, 3.0]),
        ('mon[[0,1]] = other', lambda m: m.__setitem__([0, 1], other),       want_y + [3.0]),
    ]:
        mon = make(3, k=ka); assign(mon)
        if not (list(mon.y) == want):
            failures.append('k=%r, other.k=%r: %s gives y %r, wanted %r' % (ka, kb, label, list(mon.y), want))
        if not (other.y == want_y and other.k == kb):
            failures.append('%s altered other' % label)

for msg in failures: print(msg)
assert not failures, "assignment from a monitor with another k does not give back the recorded costs"
print('ok')
