"""C14 hunt 2: named variables are substituted by plain str.replace, so a name
that is a substring of a function name (or of an extra local) corrupts it."""
import math
from mystic.symbolic import generate_conditions, generate_penalty

fails = []
cases = [
  ("exp(x) <= y",    ['x', 'y'], None,           [(0., 2.), (1., 0.)], lambda x, y: math.exp(x) - y),
  ("max(x,y) <= 1",  ['x', 'y'], None,           [(0., .5), (3., 0.)], lambda x, y: max(x, y) - 1),
  ("a*b <= scale",   ['a', 'b'], {'scale': 3.},  [(1., 2.), (2., 4.)], lambda a, b: a*b - 3.),
]
for text, names, loc, pts, ref in cases:
    for pt in pts:
        want = ref(*pt)
        try:
            ineq, eq = generate_conditions(text, variables=names, locals=loc)
            got = ineq[0](list(pt))
            p = generate_penalty((ineq, eq))(list(pt))
            ok = abs(got - want) < 1e-12 and ((p == 0) if want <= 0 else (p > 0))
            print(text, pt, 'value', got, 'want', want, 'penalty', p)
        except Exception as e:
            ok = False
            print(text, pt, 'raised %s: %s' % (type(e).__name__, e), '| compiled:', [f.__doc__ for f in ineq+eq])
        if not ok: fails.append((text, pt))
assert not fails, fails
