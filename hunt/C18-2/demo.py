# C18: the L-p norms / minkowski distances must equal their textbook values,
# and normalize must reach the requested (unit L-p) total.
import numpy as np
from mystic.math.distance import Lnorm, euclidean
from mystic.math.measures import normalize

def close(a, b, rt=1e-9): return abs(a - b) <= rt * max(abs(a), abs(b))
fails = []

# (a) underflow: the power underflows to 0, so the norm is returned as 0
v = float(Lnorm([1e-200, 1e-200], 2)); ref = 2**.5 * 1e-200
if not close(v, ref): fails.append(('Lnorm([1e-200]*2, 2)', v, ref))
v = float(Lnorm([1e-5] * 3, 100)); ref = 1e-5 * 3**.01
if not close(v, ref): fails.append(('Lnorm([1e-5]*3, 100)', v, ref))
v = float(euclidean([0., 0.], [1e-200, 1e-200], pair=True)); ref = 2**.5 * 1e-200
if not close(v, ref): fails.append(('euclidean tiny', v, ref))
# ... and therefore normalize() of ordinary weights returns all zeros
w = normalize([0.01, 0.02], 'l200')
tot = float(Lnorm(np.array(w, dtype=float) * 1e3, 200)) / 1e3  # scaled: safe
if not close(tot, 1.0, 1e-6): fails.append(("normalize([.01,.02],'l200') L200-total", tot, 1.0))
# (b) overflow: silently replaced by the infinity norm
v = float(Lnorm([1e200, 1e200], 2)); ref = 2**.5 * 1e200
if not close(v, ref): fails.append(('Lnorm([1e200]*2, 2)', v, ref))
v = float(Lnorm([1e3, 1e3], 200)); ref = 1e3 * 2**(1 / 200.)
if not close(v, ref): fails.append(('Lnorm([1e3]*2, 200)', v, ref))
# (c) collateral damage: one overflowing row switches EVERY row of the batch
#     to the infinity norm, including the harmless 3-4-5 row
v = np.ravel(Lnorm([[1e200, 1e200], [3., 4.]], 2, axis=1))[1]
if not close(float(v), 5.0): fails.append(('Lnorm rows, (3,4) row', float(v), 5.0))
v = euclidean([[0., 0.], [0., 0.]], [[1e200, 1e200], [3., 4.]], pair=True, axis=1)[1]
if not close(float(v), 5.0): fails.append(('euclidean pairs, (3,4) pair', float(v), 5.0))

for f in fails: print('VIOLATION %s: got %r, textbook %r' % f)
assert not fails, "L-p norm / minkowski wrong under float under/overflow"
print('ok')
