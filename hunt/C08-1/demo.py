"""C08 / DE: the exponential crossover of the *Exp strategies may mutate NO position.

Exponential crossover (Storn & Price; DESolver 'exp' strategies):
    n = randint(D); L = 0
    do { trial[n] = mutant[n]; n = (n+1) % D; L += 1 } while (rand() < CR and L < D)
so every trial vector carries at least one mutated position (exactly one when
CR == 0), and the mutated positions are a circular run of length L >= 1.

We observe every trial through a wrapping strategy callable and check that
each trial has >= 1 component equal to base + F*(difference) (and != parent).
"""
import functools
import numpy as np
import mystic.strategy as S
from mystic.solvers import DifferentialEvolutionSolver2
from mystic.termination import VTR
from mystic.tools import random_seed

D, NP, F = 5, 10, 0.7
c = np.linspace(-1, 1, D)
def cost(x):
    return float(np.sum((np.asarray(x) - c)**2))

def observe(CR, gens=8, seed=123):
    random_seed(seed)
    rec = {}
    orig = S.get_random_candidates
    def spy(NP_, exclude, N):
        r = orig(NP_, exclude, N); rec['r'] = list(r); return r
    S.get_random_candidates = spy
    counts = []
    @functools.wraps(S.Rand1Exp)
    def strat(inst, i):
        pop = np.array(inst.population, dtype=float)     # snapshot
        S.Rand1Exp(inst, i)
        trial = np.array(inst.trialSolution[i], dtype=float)
        r1, r2, r3 = rec['r']
        mutant = pop[r1] + F*(pop[r2] - pop[r3])
        parent = pop[i]
        # every component is either parent's or mutant's
        assert all(trial[k] == parent[k] or trial[k] == mutant[k] for k in range(D))
        counts.append(int(sum(trial[k] == mutant[k] and trial[k] != parent[k] for k in range(D))))
    try:
        s = DifferentialEvolutionSolver2(D, NP)
        s.SetRandomInitialPoints([-5.]*D, [5.]*D)
        s.SetEvaluationLimits(gens, None)
        s.Solve(cost, VTR(1e-300), strategy=strat, CrossProbability=CR, ScalingFactor=F)
    finally:
        S.get_random_candidates = orig
    return np.array(counts)

n0 = observe(0.0)
n5 = observe(0.5)
print("CR=0.0: mutated positions per trial, histogram 0..D:", np.bincount(n0, minlength=D+1))
print("CR=0.5: mutated positions per trial, histogram 0..D:", np.bincount(n5, minlength=D+1))
# exponential crossover with CR=0 mutates exactly one position of every trial
assert (n0 == 1).all(), "CR=0: %d of %d trials are plain copies of the parent" % ((n0 == 0).sum(), len(n0))
# and for any CR every trial has at least one mutated position
assert (n5 >= 1).all(), "CR=0.5: %d of %d trials have no mutated position" % ((n5 == 0).sum(), len(n5))
print("ok")
