"""C14 hunt 9 (borderline): squaring the condition value in python floats
underflows to 0.0 (violated line, zero penalty) or raises OverflowError."""
from mystic.symbolic import generate_conditions, generate_penalty
fails = []
for text, x, holds in [("x0 = 0", [1e-170], False), ("x0 <= 0", [1e-170], False),
                       ("x0 = 0", [1e200], False), ("x0 <= 0", [1e200], False)]:
    ineq, eq = generate_conditions(text)
    pen = generate_penalty((ineq, eq))
    try:
        p = pen(x)
        ok = p > 0
        print(text, x, 'condition', (ineq+eq)[0](x), 'penalty', p)
    except Exception as e:
        ok = False
        print(text, x, 'condition', (ineq+eq)[0](x), 'raised %s: %s' % (type(e).__name__, e))
    if not ok: fails.append((text, x))
assert not fails, fails
