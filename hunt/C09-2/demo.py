"""C09 / hunt 2: if member 0 ends with a NaN best energy the reduction to the
best member is skipped and the ensemble reports (inf, [0,0]) - which is no
member's result - although other members converged.

Exits 0 if the reported (bestEnergy, bestSolution) is the result of the member
with the lowest (non-NaN) best energy; exits 1 otherwise.
"""
import math
import numpy as np
from mystic.solvers import LatticeSolver, NelderMeadSimplexSolver
from mystic.tools import random_seed

def cost(x):
    # an objective that is undefined (NaN) on part of the box, e.g. log/sqrt
    if x[0] < 0:
        return float('nan')
    return float(sum((np.asarray(x) - 0.3)**2))

rc = 0
for step in (False, True):
    random_seed(123)
    s = LatticeSolver(2, [2, 2])
    s.SetNestedSolver(NelderMeadSimplexSolver)
    s.SetStrictRanges([-2, -2], [2, 2])
    s.SetEvaluationLimits(generations=200)
    s.Solve(cost, step=step, disp=0)

    E = [float(e) for e in s._all_bestEnergy]
    X = [list(map(float, x)) for x in s._all_bestSolution]
    finite = [e for e in E if not math.isnan(e)]
    print("step=%s member energies: %s" % (step, E))
    print("   reported bestEnergy=%r bestSolution=%r" % (s.bestEnergy, list(s.bestSolution)))
    best = min(finite)
    k = E.index(best)
    ok = (float(s.bestEnergy) == best) and (list(map(float, s.bestSolution)) == X[k])
    # weaker check: the reported pair is at least *some* member's pair
    some = any((float(s.bestEnergy) == e or (math.isnan(e) and math.isnan(float(s.bestEnergy))))
               and list(map(float, s.bestSolution)) == x for e, x in zip(E, X))
    print("   is the best member's result: %s; is any member's result: %s" % (ok, some))
    if not ok: rc = 1
assert rc == 0, "ensemble did not report the best member"
print("OK")
