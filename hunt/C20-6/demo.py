"""C20 hunt 6: with a scaling factor k that is a numpy scalar (e.g. numpy.float64(-1.0)),
Monitor.y is an ndarray instead of a list; write_raw_file / write_support_file then write
`cost = [3. 6.]`, which cannot be read back, and a history with scalar and vector costs
cannot be returned at all."""
import os, tempfile
import numpy as np
from mystic.monitors import Monitor
from mystic.munge import write_raw_file, read_raw_file, write_support_file, read_support_file

d = tempfile.mkdtemp()
failures = []

for k in (-1.0, np.float64(-1.0)):          # python float: fine; numpy float: not
    mon = Monitor(k=k)
    mon([1.0, 2.0], 3.0)
    mon([4.0, 5.0], 6.0)
    assert len(mon) == 2 and list(mon.y) == [3.0, 6.0]      # k is transparent (holds)
    for write, read, getx in [(write_raw_file, read_raw_file, lambda p: p),
                              (write_support_file, read_support_file,
                               lambda p: [list(i) for i in zip(*p[0])])]:
        f = os.path.join(d, 'k_%s_%s.py' % (type(k).__name__, write.__name__))
        try:
            write(mon, f)
            p, c = read(f)
            if not (getx(p) == mon.x and list(c) == [3.0, 6.0]):
                failures.append('%s k=%r: read back %r %r' % (write.__name__, k, p, c))
        except Exception as e:
            failures.append('%s k=%r: %r' % (write.__name__, k, e))

    # scalar and vector costs in one history
    mon = Monitor(k=k)
    mon([1.0, 2.0], [3.0, 4.0])
    mon([4.0, 5.0], 6.0)
    try:
        y = mon.y
        if not (list(y[0]) == [3.0, 4.0] and y[1] == 6.0):
            failures.append('mon.y k=%r: %r' % (k, y))
    except Exception as e:
        failures.append('mon.y k=%r: %r' % (k, e))

for msg in failures: print(msg)
assert not failures, "a numpy-scalar k is not transparent"
print('ok')
