"""C02 hunt 7 (borderline): initial points requested within limits that have an
infinite side (or whose width overflows) are not generated within them.

exit 0 if the property holds, exit 1 (AssertionError) otherwise.
"""
import warnings
warnings.filterwarnings('ignore')
import numpy as np
from mystic.solvers import (DifferentialEvolutionSolver, NelderMeadSimplexSolver)
from mystic.tools import random_seed
inf = np.inf

def inside(x, lo, hi):
    x = np.asarray(x, dtype=float)
    return bool(np.all((x >= lo) & (x <= hi)))       # NaN is not inside

failures = []
cases = [([-inf, 0.0], [1.0, 1.0]),        # one-sided:  x0 <= 1
         ([-inf, -inf], [inf, inf]),       # unbounded
         ([-1e308, 0.0], [1e308, 1.0])]    # finite limits, width overflows
for Solver in (DifferentialEvolutionSolver, NelderMeadSimplexSolver):
    for lo, hi in cases:
        random_seed(5)
        solver = Solver(2)
        solver.SetRandomInitialPoints(list(lo), list(hi))
        bad = [list(p) for p in solver.population if not inside(p, lo, hi)]
        if bad:
            failures.append((Solver.__name__, 'population', lo, hi, bad[0]))
        # ... and the cost is then evaluated there, with the same box as strict ranges
        outside = []
        def cost(x):
            if not inside(x, lo, hi): outside.append(list(x))
            return float(np.sum((np.asarray(x) - 0.3)**2))
        solver.SetStrictRanges(list(lo), list(hi))
        solver.SetEvaluationLimits(5, 100)
        solver.Solve(cost)
        if outside:
            failures.append((Solver.__name__, 'cost call', lo, hi, outside[0]))

for f in failures:
    print("VIOLATION: %s %s for limits [%s,%s]: %s" % f)
assert not failures, "initial points outside the requested limits"
print("ok")
