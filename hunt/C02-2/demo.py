"""C02 hunt 2: ensemble solvers (Lattice/Buckshot/Sparsity) with a strict box
that has an infinite side start their nested solvers at NaN/inf points, and the
user's cost is evaluated at points with NaN coordinates.

exit 0 if the property holds, exit 1 (AssertionError) otherwise.
"""
import sys, types, warnings
warnings.filterwarnings('ignore')
import numpy as np

# The ensemble solvers copy the objective with dill; a function defined in
# __main__ would be copied by value (together with its recorder).  Put the
# recording cost function in a tiny importable module so that every copy
# shares one recorder.
_src = '''
import numpy as np
LO = None; HI = None; OUT = []; N = [0]
def reset(lo, hi):
    global LO, HI
    LO = np.asarray(lo, float); HI = np.asarray(hi, float); del OUT[:]; N[0] = 0
def cost(x):
    x = np.asarray(x, float); N[0] += 1
    if not np.all((x >= LO) & (x <= HI)):   # NaN is not inside the box
        OUT.append(x.copy())
    return float(np.sum((x - 0.3)**2))
'''
rec = types.ModuleType('c02_hunt2_rec'); exec(_src, rec.__dict__)
sys.modules['c02_hunt2_rec'] = rec

from mystic.solvers import LatticeSolver, BuckshotSolver, SparsitySolver
from mystic.solvers import NelderMeadSimplexSolver
from mystic.tools import random_seed
inf = np.inf

failures = []
for Ensemble in (LatticeSolver, BuckshotSolver, SparsitySolver):
    for lo, hi in [([-inf, 0.0], [1.0, 1.0]),     # x0 <= 1,  0 <= x1 <= 1
                   ([0.0, 0.0], [inf, 1.0])]:     # x0 >= 0,  0 <= x1 <= 1
        random_seed(1)
        rec.reset(lo, hi)
        solver = Ensemble(2, 4)
        solver.SetNestedSolver(NelderMeadSimplexSolver)
        solver.SetStrictRanges(list(lo), list(hi))
        solver.SetEvaluationLimits(50, 500)
        solver.Solve(rec.cost)
        if rec.OUT:
            failures.append((Ensemble.__name__, lo, hi, len(rec.OUT), rec.N[0], rec.OUT[0]))

for f in failures:
    print("VIOLATION: %s box=[%s,%s]: %d of %d cost calls outside the box, e.g. %s" % f)
assert not failures, "cost evaluated outside the strict box"
print("ok")
