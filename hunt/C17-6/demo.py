"""coupler.or_ is non-zero although one of its members is zero, when another member is
negative (min() picks the negative one, abs() makes it a positive penalty)."""
from mystic.penalty import barrier_inequality, quadratic_equality
from mystic.coupler import or_

# two genuine mystic penalties
p_eq = quadratic_equality(lambda x: x[0] - 3.0)(lambda x: 0.0)      # zero iff x0 == 3
p_bar = barrier_inequality(lambda x: x[0] - 10.0)(lambda x: 0.0)    # log barrier for x0 < 10
x = [3.0]
assert p_eq(x) == 0.0                  # a member is exactly zero here
assert p_bar(x) < 0.0                  # the barrier is negative well inside its region
combined = or_(p_eq, p_bar)
assert combined(x) == 0.0, "or_ = %r at %r although member p_eq is 0 there" % (combined(x), x)
print("ok")
