"""C15 (combinators, coupler.not_): not_(p) must penalise exactly the region
where p is satisfied and be zero where p is violated -- for any penalty p,
including one whose condition takes args/kwds and one that is stacked."""
from mystic import penalty as mp
from mystic.coupler import not_

zero = lambda x: 0.
problems = []

# (a) penalty whose condition takes a keyword (the module docstring example)
def cond(x, target):
    return x[0] - target
p = mp.linear_equality(cond, kwds={'target': 5.0})(zero)
assert p([5.]) == 0.0 and p([4.]) > 0
try:
    n = not_(p)
    assert n([5.]) > 0, n([5.])      # p satisfied -> not_(p) violated
    assert n([4.]) == 0.0, n([4.])   # p violated  -> not_(p) satisfied
except TypeError as e:
    problems.append(('kwds dropped', repr(e)))
# ... and the documented 'kwds' setting of not_ cannot supply them either
try:
    n = not_(p, kwds={'target': 5.0})
    assert n([5.]) > 0 and n([4.]) == 0.0
except TypeError as e:
    problems.append(('kwds setting unusable', repr(e)))

# (b) stacked penalty: p2 is satisfied iff x[0] == 0 AND x[1] <= 0
inner = mp.linear_inequality(lambda x: x[1])(zero)
p2 = mp.linear_equality(lambda x: x[0])(inner)
assert p2([0., -1.]) == 0.0 and p2([0., 1.]) > 0
n2 = not_(p2)
if not n2([0., 1.]) == 0.0:          # p2 is violated here -> no penalty from not_
    problems.append(('stacked: inner penalty ignored', n2([0., 1.])))

for pr in problems:
    print(pr)
assert not problems
print("ok")
