"""C02 hunt 1: SetStrictRanges installed between iterations with a box that has
an infinite side -> population members become NaN/inf and the user's cost is
evaluated at points with NaN coordinates (not inside [min,max]).

exit 0 if the property holds, exit 1 (AssertionError) otherwise.
"""
import sys, warnings
warnings.filterwarnings('ignore')
import numpy as np
from mystic.solvers import DifferentialEvolutionSolver, DifferentialEvolutionSolver2
from mystic.tools import random_seed

inf = np.inf
failures = []

def inside(x, lo, hi):
    x = np.asarray(x, dtype=float)
    # NaN is not inside any interval: use the positive form of the test
    return bool(np.all((x >= lo) & (x <= hi)))

for Solver in (DifferentialEvolutionSolver, DifferentialEvolutionSolver2):
    for lo, hi in [([-inf, -inf], [1.0, 1.0]),     # one-sided: x <= 1
                   ([0.0, 0.0], [inf, inf])]:      # one-sided: x >= 0
        random_seed(123)
        box = {'lo': np.array([-inf, -inf]), 'hi': np.array([inf, inf])}
        outside = []
        def cost(x):
            if not inside(x, box['lo'], box['hi']):
                outside.append(np.array(x, dtype=float))
            return float(np.sum((np.asarray(x) - 0.3)**2))

        solver = Solver(2, 10)
        solver.SetRandomInitialPoints([-3, -3], [3, 3])
        solver.SetEvaluationLimits(generations=1000)
        solver.SetObjective(cost)
        for i in range(2):                # two unbounded iterations
            solver.Step()
        # now install strict ranges (one-sided box) between iterations
        box['lo'], box['hi'] = np.array(lo), np.array(hi)
        solver.SetStrictRanges(list(lo), list(hi))
        solver.Step()
        # observation point: solver.population after SetStrictRanges+Step
        pop_out = [list(p) for p in solver.population if not inside(p, lo, hi)]
        for i in range(4):
            solver.Step()
        if outside or pop_out:
            failures.append((Solver.__name__, lo, hi, len(outside),
                             outside[:1], pop_out[:1]))

for f in failures:
    print("VIOLATION: %s box=[%s,%s]: %d cost calls outside the box, e.g. %s; "
          "population members outside: %s" % f)
assert not failures, "cost evaluated (or population left) outside the strict box"
print("ok")
