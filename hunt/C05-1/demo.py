"""C05 hunt #1: an ensemble solver given a limit of 0 does not return from Solve.

Property: for all solvers and all limit pairs (including 0), Solve always
returns; with a generation (or evaluation) limit of 0 the solver stops right
after its initial evaluation, reporting the limit.
"""
import random
import numpy as np
from mystic.solvers import BuckshotSolver, LatticeSolver, NelderMeadSimplexSolver
from mystic.solvers import buckshot
from mystic.termination import VTR

calls = [0]
def cost(x):
    calls[0] += 1
    x = np.asarray(x)
    return float(((x - 1.)**2).sum()) + 1.0

def reference(limits):
    "the same limits on a plain (non-ensemble) solver: returns after the initial evaluation"
    s = NelderMeadSimplexSolver(2)
    s.SetInitialPoints([0.5, 1.5])
    s.SetEvaluationLimits(*limits)
    s.SetTermination(VTR(1e-30))
    s.Solve(cost)
    assert s.generations == 0 and s.evaluations == 1
    assert s.Terminated(info=True).startswith('EvaluationLimits')

failures = []
for limits in [(0, None), (None, 0), (0, 0)]:
    reference(limits)
    for make in (lambda: BuckshotSolver(2, npts=3), lambda: LatticeSolver(2, nbins=[2, 1])):
        random.seed(0); np.random.seed(0)
        s = make()
        s.SetStrictRanges([-3, -3], [3, 3])
        s.SetEvaluationLimits(*limits)
        s.SetTermination(VTR(1e-30))
        s.SetObjective(cost)
        try:
            s.Solve()
        except Exception as e:  # Solve must return
            failures.append((type(s).__name__, limits, repr(e)))
            continue
        # and it must have stopped straight after the initial evaluations
        if max(s._all_iters) != 0 or not s.Terminated():
            failures.append((type(s).__name__, limits, s._all_iters))

# the one-line interface too
try:
    random.seed(0); np.random.seed(0)
    x, f, it, fc, warnflag, allfc = buckshot(cost, 2, npts=3, bounds=[(-3, 3)]*2,
                                            maxiter=0, full_output=1, disp=0)
    if it != 0 or warnflag != 2:
        failures.append(('buckshot()', (0, None), (it, warnflag)))
except Exception as e:
    failures.append(('buckshot()', (0, None), repr(e)))

for f in failures: print('FAIL', f)
assert not failures, "ensemble solver with a zero limit did not stop cleanly after the initial evaluation"
print('ok')
