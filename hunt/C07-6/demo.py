"""C07 hunt #6 (borderline): the evaluation monitor of DifferentialEvolution-
Solver2 is silently disconnected as soon as *any* map other than the builtin
`python_map` object is supplied - even a serial, in-process, order preserving
one.  The recorded evaluations (part of the observable result of a run)
therefore depend on the supplied map.
"""
import copy, numpy
from mystic.solvers import DifferentialEvolutionSolver2
from mystic.monitors import Monitor
from mystic.termination import VTR
from mystic.tools import random_seed


def cost(x):
    x = numpy.asarray(x)
    return float(((x - numpy.array([1.2, 2.7, 0.4]))**2).sum() + 0.3*numpy.sin(3*x).sum())

POP = [[0.8,3.1,1.9],[0.1,0.2,4.0],[4.4,1.0,2.0],[2.2,2.2,2.2],
       [3.0,0.5,0.9],[1.0,1.0,1.0],[0.3,3.3,0.3],[4.9,4.9,0.1]]


def serial_map(f, *args, **kwds):
    return [f(*a) for a in zip(*args)]


def run(themap):
    s = DifferentialEvolutionSolver2(3, 8)
    s.population = copy.deepcopy(POP)
    em = Monitor()
    s.SetEvaluationMonitor(em)
    s.SetEvaluationLimits(5, 10000)
    s.SetTermination(VTR(-1e9))
    if themap is not None: s.SetMapper(themap)
    random_seed(7)
    s.Solve(cost)
    traj = (numpy.asarray(s.bestSolution, float).tolist(), float(s.bestEnergy),
            numpy.asarray(s.popEnergy, float).tolist(), int(s.evaluations), int(s.generations))
    evals = ([numpy.asarray(x, float).tolist() for x in s._evalmon._x],
             numpy.asarray(s._evalmon._y, float).tolist())
    return traj, evals

(t0, e0), (t1, e1) = run(None), run(serial_map)
print('trajectory equal          :', t0 == t1)
print('evaluations counter       :', t0[3], t1[3])
print('entries in evaluation mon.:', len(e0[1]), len(e1[1]))
assert t0 == t1
assert e0 == e1, "evaluation monitor content depends on the supplied (serial) map"
print("OK")
