"""integers() (ints=True, the default) on an integer-valued float of magnitude >= 2**63:
the entry is already in the target set but is replaced by INT64_MIN."""
import warnings
warnings.simplefilter('ignore')
from mystic.constraints import integers

identity = lambda x: x
x = [1e20, 2.5, -3e19]
y = list(integers()(identity)(list(x)))
print(y)
yf = list(integers(ints=float)(identity)(list(x)))
assert yf == [1e20, 2.0, -3e19]                       # fine with ints=float
# property: 1e20 and -3e19 are integers already => unchanged; 2.5 -> nearest integer
assert y[1] == 2
assert y[0] == 1e20 and y[2] == -3e19, ('conforming entries changed', y)
