"""GradientNormTolerance cannot be evaluated when the objective takes ExtraArgs."""
import numpy as np
from mystic.solvers import NelderMeadSimplexSolver
from mystic.termination import GradientNormTolerance, VTR

def cost(x, a):
    x = np.asarray(x)
    return float(np.sum((x - a)**2))

def solved(extra):
    solver = NelderMeadSimplexSolver(2)
    solver.SetInitialPoints([1., 1.])
    if extra: solver.SetObjective(cost, ExtraArgs=(3.0,))
    else:     solver.SetObjective(lambda x: cost(x, 3.0))
    solver.SetTermination(VTR(1e-12))
    solver.Solve()
    return solver

def documented(solver, f, tolerance):
    "sum(abs(gradient)**norm)**(1.0/norm) <= tolerance  with norm=inf (max-norm), forward differences"
    x = np.array(solver.bestSolution, float); eps = 1.4901161193847656e-08
    g = np.array([(f(x + eps*np.eye(len(x))[k]) - f(x))/eps for k in range(len(x))])
    return bool(np.max(np.abs(g)) <= tolerance)

f = lambda x: cost(x, 3.0)
# control: the same problem written without ExtraArgs works and agrees with the formula
s0 = solved(extra=False)
for tol in (1e-3, 1e-12):
    assert GradientNormTolerance(tol)(s0) == documented(s0, f, tol)

s1 = solved(extra=True)
assert np.allclose(s1.bestSolution, [3., 3.], atol=1e-4)
for tol in (1e-3, 1e-12):
    want = documented(s1, f, tol)
    try:
        got = GradientNormTolerance(tol)(s1)
    except TypeError as e:
        raise AssertionError("GradientNormTolerance(%s)(solver) raised %r; documented inequality gives %s"
                             % (tol, e, want))
    assert got == want, (tol, got, want)
print("ok")
