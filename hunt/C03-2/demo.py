"""C03 / ensemble solver, constraints installed mid-run (between Steps):
already-instantiated nested solvers never receive them, so the user's cost
keeps being evaluated at points that violate the constraints."""
import numpy as np
from mystic.solvers import BuckshotSolver, NelderMeadSimplexSolver
from mystic.monitors import Monitor
from mystic.tools import random_seed

T = np.array([0.3, 1.7, 2.4])
def cost(x):
    x = np.asarray(x, dtype=float)
    return float(np.sum((x - T)**2))

def constraint(x):              # pure, deterministic, idempotent: pin x0 = 1
    y = [float(i) for i in x]
    y[0] = 1.0
    return y

random_seed(5)
solver = BuckshotSolver(3, npts=3)
solver.SetNestedSolver(NelderMeadSimplexSolver)
solver.SetStrictRanges([-2., -5., -5.], [2., 5., 5.])
solver.SetEvaluationMonitor(Monitor())
solver.SetEvaluationLimits(generations=50)
solver.SetObjective(cost)
for i in range(3):
    solver.Step()
seen = [len(s._evalmon) for s in solver._allSolvers]

solver.SetConstraints(constraint)       # installed mid-run
for i in range(3):
    solver.Step()

violations = 0; total = 0
for s, n in zip(solver._allSolvers, seen):
    for x in s._evalmon.x[n:]:          # evaluations made after the installation
        total += 1
        x = [float(i) for i in x]
        if constraint(x) != x: violations += 1
print("evaluations after SetConstraints: %d, violating the constraints: %d" % (total, violations))
assert total > 0
assert violations == 0, "cost was evaluated at %d unconstrained points after SetConstraints" % violations
