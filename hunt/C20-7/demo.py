"""C20 hunt 7: item assignment with a negative index, monitor[-1] = other, does not
replace the last record: it INSERTS other's records before the last one."""
from mystic.monitors import Monitor

def make(n, offset=0):
    m = Monitor()
    for i in range(n):
        m([float(i + offset), 0.5], float(i + offset) + 1, i + offset)
    return m

failures = []
for i in (0, 1, 2, -1, -2, -3):
    mon = make(3); other = make(1, offset=10)
    rx, ry, rid = list(mon.x), list(mon.y), list(mon.id)      # reference: python lists
    rx[i], ry[i], rid[i] = other.x[0], other.y[0], other.id[0]
    mon[i] = other
    if not (len(mon) == 3 and mon.x == rx and mon.y == ry and mon.id == rid):
        failures.append('mon[%d] = other: len %d, x %r, y %r, id %r' % (i, len(mon), mon.x, mon.y, mon.id))
    if not (len(other) == 1 and other.x == [[10.0, 0.5]] and other.y == [11.0] and other.id == [10]):
        failures.append('mon[%d] = other altered other' % i)

for msg in failures: print(msg)
assert not failures, "monitor[-1] = other inserts instead of replacing"
print('ok')
