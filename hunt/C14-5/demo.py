"""C14 hunt 5: an integer ndarray point is assigned in place, so solved values
are truncated and the penalty of the same text is not driven to zero."""
import numpy as np
from mystic.symbolic import (generate_solvers, generate_constraint,
                             generate_conditions, generate_penalty)
text = "x2 = x0/2.\nx0 >= 0."
c = generate_constraint(generate_solvers(text, nvars=3))
p = generate_penalty(generate_conditions(text, nvars=3))
fails = []
for x in ([1, 2, 3], np.array([1., 2., 3.]), np.array([1, 2, 3])):
    y = c(x); v = p(y)
    print(type(x).__name__, getattr(x, 'dtype', 'int list'), '->', y, 'penalty', v)
    if v != 0: fails.append((y, v))
assert not fails, fails
