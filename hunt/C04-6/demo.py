"""C04 hunt 6: with a (plain, empty) step monitor created with the monitor's own
`k` keyword, solver.energy_history is k times the best energies: its last entry
is not the reported best energy, and with k=-1 it is increasing."""
import numpy as np
from mystic.solvers import NelderMeadSimplexSolver
from mystic.monitors import Monitor
from mystic.termination import VTR

def rosen(x):
    x = np.asarray(x, dtype=float)
    return float(np.sum(100.0*(x[1:]-x[:-1]**2)**2 + (1-x[:-1])**2))

for k in (-1, 3):
    solver = NelderMeadSimplexSolver(3)
    solver.SetInitialPoints([0.8, 1.2, 0.7])
    stepmon = Monitor(k=k)
    solver.SetGenerationMonitor(stepmon)
    solver.SetTermination(VTR(1e-12))
    solver.SetEvaluationLimits(generations=6)
    solver.Solve(rosen)
    eh = [float(e) for e in solver.energy_history]
    print("k=%s  bestEnergy=%r" % (k, float(solver.bestEnergy)))
    print("   energy_history =", eh)
    print("   stepmon.y      =", [float(y) for y in stepmon.y])
    assert float(stepmon.y[-1]) == float(solver.bestEnergy)           # the monitor itself is faithful
    assert eh[-1] == float(solver.bestEnergy), \
        "k=%s: last entry of energy_history (%r) is not the reported best energy (%r)" % (k, eh[-1], float(solver.bestEnergy))
    assert all(eh[i] <= eh[i-1] for i in range(1, len(eh))), "k=%s: energy_history increases" % k
print("OK")
