"""Sample / allowed sets given as a numpy array (impose_unique) or a python set (discrete) raise."""
import numpy as np
from mystic.constraints import impose_unique, discrete

identity = lambda x: x
failures = []
assert len(set(impose_unique(list(range(11)))(identity)([1, 2, 1]))) == 3      # list: fine
try:
    y = impose_unique(np.arange(11))(identity)([1, 2, 1])
    assert len(set(y)) == 3 and set(y) <= set(range(11))
except Exception as e:
    print('impose_unique(ndarray) raised', type(e).__name__, e); failures.append('impose_unique(ndarray)')
assert list(discrete([1., 2.])(identity)([0.2, 1.7])) == [1., 2.]              # list: fine
try:
    y = discrete({1., 2.})(identity)([0.2, 1.7])
    assert list(y) == [1., 2.]
except Exception as e:
    print('discrete(set) raised', type(e).__name__, e); failures.append('discrete(set)')
assert not failures, failures
