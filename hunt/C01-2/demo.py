"""C01 hunt #2: Nelder-Mead across a change of constraints (here: the change
mystic itself makes when a Collapse termination fires inside one Solve).
The best vertex is overwritten with constraints(best vertex) but is not
re-evaluated, so bestSolution is a vector that was never passed to the cost
function and bestEnergy is the energy of a different point.
"""
import random
import numpy as np
from mystic.solvers import NelderMeadSimplexSolver
from mystic.termination import Or, CollapseAt, ChangeOverGeneration

CALLS = {}

def key(x):
    return tuple(float(i) for i in np.asarray(x, dtype=float).ravel())

def f(x):
    x = np.asarray(x, dtype=float)
    return float(1e2*(x[0] - 1e-3)**2 + 1e-6*(x[1] - 1.0)**2 + 1e-6*(x[2] + 2.0)**2)

def cost(x):
    y = f(x)
    CALLS[key(x)] = y
    return y

random.seed(3); np.random.seed(3)

solver = NelderMeadSimplexSolver(3)
solver.SetInitialPoints([0.5, 0.5, 0.5])
solver.SetEvaluationLimits(300, 20000)
# when x[0] stays within 5e-3 of 0.0 for 15 generations, x[0] is fixed at 0.0
# (Solve adds the constraint impose_at([0], 0.0) and continues)
solver.SetTermination(Or(CollapseAt(0.0, tolerance=5e-3, generations=15),
                         ChangeOverGeneration(1e-10, 30)))

violations = []
def check(xk):
    e = float(solver.bestEnergy); x = solver.bestSolution
    if not np.isfinite(e): return
    if key(x) not in CALLS:
        violations.append((solver.generations, 'not evaluated', key(x), e, f(x)))
    elif not np.isclose(CALLS[key(x)], e, rtol=1e-12, atol=0):
        violations.append((solver.generations, 'wrong energy', key(x), e, CALLS[key(x)]))

solver.Solve(cost, callback=check)   # check at every iteration boundary
check(None)                          # ... and after Solve

x = solver.bestSolution; e = float(solver.bestEnergy)
print("generations  :", solver.generations)
print("bestSolution :", list(map(float, x)))
print("bestEnergy   :", e)
print("cost(best)   :", f(x))
print("evaluated?   :", key(x) in CALLS)
if violations:
    print("first violation (generation, what, x, reported, true):", violations[0])
    print("number of iteration boundaries in violation:", len(violations))

assert key(x) in CALLS, "final bestSolution was never passed to the cost function"
assert np.isclose(f(x), e, rtol=1e-12, atol=0), "bestEnergy %r != cost(bestSolution) %r" % (e, f(x))
assert not violations
