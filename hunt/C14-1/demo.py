"""C14 hunt 1: a line with more than one comparator character is cut to its
first and last piece -- the middle is silently dropped."""
import sys
from mystic.symbolic import generate_conditions, generate_penalty

fails = []

# (a) chained comparison: standard python, one constraint line
text = "0 <= x0 <= 1"
ineq, eq = generate_conditions(text)
pen = generate_penalty((ineq, eq))
for x0 in (-3., 0., 0.5, 1., 5.):
    holds = eval(text, {}, {'x0': x0})          # independent evaluation of the text
    p = pen([x0])
    ok = (p == 0) if holds else (p > 0)
    print("x0=%-5s text holds=%-5s penalty=%s  conditions=%s" % (x0, holds, p, [f.__doc__ for f in ineq+eq]))
    if not ok: fails.append(('chain', x0, p))

# (b) a keyword argument ('=') inside a call on one side of an equality
text = "x0 = around(x1, decimals=1)"
x = [1.2, 1.23]                                  # satisfies the line
try:
    ineq, eq = generate_conditions(text)
    v = eq[0](x); p = generate_penalty((ineq, eq))(x)
    print("kwarg: condition=%r value=%s penalty=%s" % (eq[0].__doc__, v, p))
    if not (v == 0 and p == 0): fails.append(('kwarg', v, p))
except Exception as e:
    print("kwarg: %s: %s" % (type(e).__name__, e))
    fails.append(('kwarg', type(e).__name__))

assert not fails, fails
