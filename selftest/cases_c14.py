SY = 'mystic/symbolic.py'
PN = 'mystic/penalty.py'
CASES = [
 dict(id='m-gt-not-negated', file=SY, expect='C14.a',
      old="                ineqconstraints.append('-('+ expression +')')", new="                ineqconstraints.append('('+ expression +')')"),
 dict(id='m-lt-to-equality', file=SY, expect='C14.a',
      old="            elif direction == '<':\n                ineqconstraints.append(expression)", new="            elif direction == '<':\n                eqconstraints.append(expression)"),
 dict(id='m-expression-reversed', file=SY, expect='C14.a',
      old="            expression = '%(lhs)s - (%(rhs)s)' % eqn", new="            expression = '%(rhs)s - (%(lhs)s)' % eqn"),
 dict(id='m-neq-as-nonzero', file=SY, expect='C14.a',
      old="                eqconstraints.append('('+ expression +') == 0')", new="                eqconstraints.append('('+ expression +') != 0')"),
 dict(id='m-return-swapped', file=SY, expect='C14.a',
      old="    return tuple(ineqconstraints), tuple(eqconstraints)", new="    return tuple(eqconstraints), tuple(ineqconstraints)"),
 dict(id='m-names-crossed', file=SY, expect='C14.b',
      old="    for funcs, conditions in zip(['equality','inequality'], \\\n                                 [eqconstraints, ineqconstraints]):",
      new="    for funcs, conditions in zip(['equality','inequality'], \\\n                                 [ineqconstraints, eqconstraints]):"),
 dict(id='m-penalty-type-crossed', file=SY, expect='C14.b',
      old="            if 'inequality' in condition.__name__: \n                ptype.append(quadratic_inequality)\n            else:\n                ptype.append(quadratic_equality)",
      new="            if 'equality' in condition.__name__: \n                ptype.append(quadratic_equality)\n            else:\n                ptype.append(quadratic_inequality)"),
 dict(id='m-stack-replaces', file=SY, expect='C14.b',
      old="        apply = penalty(condition, **kwds)\n        pf = apply(pf)", new="        apply = penalty(condition, **kwds)\n        pf = apply(lambda x:0.0)"),
 dict(id='m-quadratic-ineq-negative-side', file=PN, expect='C14.c',
      old="            return float(2*_k)*max(0., pf)**2 + f(x, *argz, **kwdz) #XXX: use 2*k or k=200?", new="            return float(2*_k)*min(0., pf)**2 + f(x, *argz, **kwdz)"),
 dict(id='n-conditions-comment', file=SY, expect='silent',
      old="    # build an empty local scope to exec the code and build the functions\n    results = {'equality':[], 'inequality':[]}", new="    # local scope for the generated functions\n    results = {'equality':[], 'inequality':[]}"),
]
CASES += [
 dict(id='m-penalty-parser-bare-bound', file='mystic/symbolic.py', expect='C14.h',
      old="            if eps: # the bound is one operand of the sum\n                eqn['rhs'] = '(%s)' % eqn['rhs']\n            eqn['rhs'] += eps.replace('e_', '_tol(%s,tol,rel)' % eqn['rhs'])\n            expression = '%(lhs)s - (%(rhs)s)' % eqn",
      new="            eqn['rhs'] += eps.replace('e_', '_tol(%s,tol,rel)' % eqn['rhs'])\n            expression = '%(lhs)s - (%(rhs)s)' % eqn"),
 dict(id='n-penalty-parser-always-parenthesised', file='mystic/symbolic.py', expect='silent',
      old="            if eps: # the bound is one operand of the sum\n                eqn['rhs'] = '(%s)' % eqn['rhs']\n            eqn['rhs'] += eps.replace('e_', '_tol(%s,tol,rel)' % eqn['rhs'])\n            expression = '%(lhs)s - (%(rhs)s)' % eqn",
      new="            eqn['rhs'] = '(%s)' % eqn['rhs']\n            eqn['rhs'] += eps.replace('e_', '_tol(%s,tol,rel)' % eqn['rhs'])\n            expression = '%(lhs)s - (%(rhs)s)' % eqn"),
]
