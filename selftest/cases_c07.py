AS = 'mystic/abstract_solver.py'
DE = 'mystic/differential_evolution.py'
TL = 'mystic/tools.py'
ST = 'mystic/strategy.py'
EN = 'mystic/abstract_ensemble_solver.py'
PM = 'mystic/python_map.py'
CASES = [
 dict(id='m-jitter-in-setpenalty', file=AS, expect='C07.a',
      old="            self._penalty = penalty\n        return self._update_objective()",
      new="            self._penalty = penalty\n            self._penalty_phase = random.random()\n        return self._update_objective()"),
 dict(id='m-reseed-in-setlimits', file=AS, expect='C07.a',
      old="        # backward compatibility\n        self._maxiter = kwds['maxiter'] if 'maxiter' in kwds else generations",
      new="        from mystic.tools import random_seed\n        if new: random_seed(0)\n        # backward compatibility\n        self._maxiter = kwds['maxiter'] if 'maxiter' in kwds else generations"),
 dict(id='m-settermination-samples', file=AS, expect='C07.a',
      old="        self._termination = termination\n        self._collapse = False\n",
      new="        self._termination = termination\n        self._collapse = False\n        from mystic.math.samples import random_samples\n        self._probe = random_samples([0]*self.nDim, [1]*self.nDim, 1)\n"),
 dict(id='m-setreducer-resets-penalty', file=AS, expect='C07.b',
      old="        if not reducer:\n            self._reducer = None\n", new="        if not reducer:\n            self._reducer = None\n            self._penalty = lambda x: 0.0\n"),
 dict(id='m-setconstraints-resets-population', file=AS, expect='C07.b',
      old="            self._constraints = constraints\n        return self._update_objective()",
      new="            self._constraints = constraints\n            self.popEnergy = [self._init_popEnergy] * self.nPop\n        return self._update_objective()"),
 dict(id='m-de2-strategy-after-map', file=DE, expect='C07.c',
      old="        for candidate in range(self.nPop):\n            if trialEnergy[candidate] < self.popEnergy[candidate]:",
      new="        for candidate in range(self.nPop):\n            if strategy and trialEnergy[candidate] == self.popEnergy[candidate]: strategy(self, candidate)\n            if trialEnergy[candidate] < self.popEnergy[candidate]:"),
 dict(id='m-de2-results-sorted', file=DE, expect='C07.c',
      old="        #FIXME: manually adjusts fcalls due to use of map\n", new="        trialEnergy = sorted(trialEnergy)\n        #FIXME: manually adjusts fcalls due to use of map\n"),
 dict(id='m-python-map-set', file=PM, expect='C07.c',
      old="    result = list(map(func, *arglist)) #     see pathos.pyina.ez_map", new="    result = list(reversed(list(map(func, *arglist))))"),
 dict(id='m-wrapper-draws', file=TL, expect='C07.c',
      old="        _x = x[:] #XXX: trouble if x not a list or ndarray... maybe \"deepcopy\"?\n        return cost_function(_x) + penalty_function(_x)",
      new="        import random\n        _x = x[:] #XXX: trouble if x not a list or ndarray... maybe \"deepcopy\"?\n        return cost_function(_x) + penalty_function(_x) + 0*random.random()"),
 dict(id='m-ensemble-map-args', file=EN, expect='C07.d',
      old="        results = list(self._map(_step, op, iv, vb, cb, **self._mapconfig))", new="        results = list(self._map(_step, op[::-1], iv, vb, cb, **self._mapconfig))"),
 dict(id='m-private-generator-in-strategy', file=ST, expect='C07.e',
      old="def get_random_candidates(NP, exclude, N):", new="def _private():\n    return random.Random()\n\ndef get_random_candidates(NP, exclude, N):\n    _rng = random.Random()"),
 dict(id='m-step-reseeds', file=AS, expect='C07.e',
      old="        # check termination before 'stepping'\n        if len(self._stepmon):", new="        from mystic.tools import random_state\n        rng = random_state(seed='*')\n        # check termination before 'stepping'\n        if len(self._stepmon):"),
 # neutral
 dict(id='n-logging-in-setpenalty', file=AS, expect='silent',
      old="            self._penalty = penalty\n        return self._update_objective()", new="            self._penalty = penalty\n            _name = getattr(penalty, '__name__', '')\n        return self._update_objective()"),
 dict(id='m-tie-rule-strict', file=EN, expect='C07.d',
      old="            if solver.bestEnergy <= energy:", new="            if solver.bestEnergy < energy:"),
 dict(id='n-random-state-handle-only', file=AS, expect='silent',
      old="        self._saveiter = generations\n", new="        from mystic.tools import random_state\n        _rng = random_state()\n        self._saveiter = generations\n"),
]
