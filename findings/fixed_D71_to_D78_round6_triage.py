"""D71-D78 (all fixed), found while triaging the round-6 seeds or reported by the round-6 agents about the unchanged tree.  Every assert fails on the tree before the named repair.
D71 C20  monitors._load read support files by module name: an already imported module of that name shadowed the file (repair 5a846ca)
D72 C19  scenario.update with the stored values an ndarray (after load(<ndarray>)) broadcast-added or raised (repair 89777ca)
D73 C07  re-decorating the objective under strict ranges drew random numbers for members inside the box (repair 7c43727)
D74 C16  suppress(clip=False) truncated the spread for integer input (repair 8c42083)
D75 C16  unique deleted 'type' from the dict it was given (repair 33f9bd3)
D76 C12  names restored marker by marker: _1 inside a_1 / inside _10 (repair b5689a7)
D77 C20  the extension pattern \\.py*.$ also stripped .pt (repair 3e1c53f)
D78 C08  integer-valued sampled starting points left integer population rows (repair 1b1c45f)
"""
import os
import random
import shutil
import tempfile

import numpy as np

from mystic.monitors import Monitor, _load
from mystic.munge import write_support_file

# D71
import trace                                    # a standard-library module that is already imported
tmp = tempfile.mkdtemp()
try:
    m = Monitor(); m([7., 8.], 9.); m([7.5, 8.], 8.)
    write_support_file(m, os.path.join(tmp, 'trace.py'))
    assert list(_load(os.path.join(tmp, 'trace.py')).y) == [9., 8.]
finally:
    shutil.rmtree(tmp)

# D72
from mystic.math.discrete import scenario
arr = np.array([.5, .5, 1., 2., .2, .3, .5, 4., 5., 6., 10, 11, 12, 13, 14, 15.])
s = scenario().load(arr, (2, 3))
s.update(list(arr[:10]) + [1., 2.])
assert [float(v) for v in s.values] == [1., 2., 12., 13., 14., 15.]

# D73
from mystic.solvers import DifferentialEvolutionSolver
from mystic.tools import random_seed
from mystic.models import rosen


def run(register_every_step):
    random_seed(7)
    s = DifferentialEvolutionSolver(3, 8)
    s.SetRandomInitialPoints([0.5] * 3, [1.5] * 3)
    s.SetStrictRanges([0, 0, 0], [5, 5, 5])
    if not register_every_step:
        s.SetObjective(rosen)
    for i in range(8):
        s.Step(rosen) if register_every_step else s.Step()
    return [list(map(float, p)) for p in s.population], float(s.bestEnergy), random.random()


assert run(True) == run(False)

# D74, D75
from mystic.tools import suppress
from mystic.constraints import unique
assert suppress([10, 1, 3], tol=2, clip=False) == [10.5, 0.0, 3.5]
d = {'min': 0, 'max': 11, 'type': int}
random.seed(1); unique([1, 2, 3, 1, 2, 4], d)
assert d == {'min': 0, 'max': 11, 'type': int}

# D76
from mystic.symbolic import replace_variables, solve
assert replace_variables('b + k', list('abcdefghijk'), list('ABCDEFGHIJK')) == 'B + K'
assert solve('p = a_1 + 2*q', variables=['p', 'q', 'a_1'], target=['q']).strip() == 'q = p/2 - a_1/2'

# D77
from mystic.monitors import LoggingMonitor
from mystic.munge import read_history
tmp = tempfile.mkdtemp()
try:
    f = os.path.join(tmp, 'run.pt')
    lm = LoggingMonitor(1, f, new=True); lm([1., 2.], 3.); lm([1.5, 2.], 2.5)
    assert read_history(f)[1] == [3.0, 2.5]
finally:
    shutil.rmtree(tmp)

# D78
from mystic.math import Distribution
random_seed(5)
s = DifferentialEvolutionSolver(3, 8); s.SetSampledInitialPoints(Distribution(np.random.randint, 0, 4)); s.SetEvaluationLimits(5, 1000)
s.Solve(rosen)
assert all(abs(rosen(p) - e) < 1e-12 for p, e in zip(s.population, s.popEnergy))
print('ok')
