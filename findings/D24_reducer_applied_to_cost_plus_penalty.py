"""D24 (known finding): every _decorate_objective wraps the penalty INSIDE the reducer, so for an array-valued cost the
solver minimises and reports reducer(cost(x) + penalty(x)) (the scalar penalty broadcast over the components), not
reducer(cost(x)) + penalty(x) as C01 states.  With a sum reducer over three components the penalty counts three times.
Exits 1 while the behaviour is present."""
import sys
import numpy as np
from mystic.solvers import NelderMeadSimplexSolver


def cost(x):
    return np.array([(x[0] - 1) ** 2, (x[1] - 2) ** 2, 1.0])


def penalty(x):
    return 10 * abs(x[0] + x[1] - 2)


def reducer(y):
    return float(np.sum(y))


s = NelderMeadSimplexSolver(2); s.SetInitialPoints([3., 3.]); s.SetEvaluationLimits(generations=30)
s.SetReducer(reducer, arraylike=True); s.SetPenalty(penalty)
s.Solve(cost)
x = s.bestSolution
stated = reducer(cost(x)) + penalty(x)
coded = reducer(cost(x) + penalty(x))
print('bestEnergy', s.bestEnergy, 'reducer(cost)+penalty', stated, 'reducer(cost+penalty)', coded)
sys.exit(0 if abs(s.bestEnergy - stated) < 1e-12 else 1)
