"""demo of known finding D10 (C09): a *configured* nested solver instance is used as-is by the ensemble.
The ensemble's limits / termination / constraints / penalty / ranges are not pushed into the members (they only
see the ensemble's settings through the ensemble-decorated cost they are handed), so members ignore the
ensemble's evaluation limits and the total evaluation count includes calls the bounds gate swallowed.
run: /venv/bin/python /verif/findings/D10_ensemble_configured_instance.py"""
import mystic
from mystic.solvers import LatticeSolver, NelderMeadSimplexSolver
real = [0]
def cost(x):
    real[0] += 1
    return sum((xi - 3.)**2 for xi in x)       # unconstrained minimum at (3,3), outside the box
for nested in (NelderMeadSimplexSolver, NelderMeadSimplexSolver(2)):
    real[0] = 0
    mystic.random_seed(3)
    s = LatticeSolver(2, nbins=(2, 2))
    s.SetNestedSolver(nested)
    s.SetStrictRanges([0, 0], [1, 1])
    s.SetEvaluationLimits(5, 2000)               # at most 5 iterations per member
    s.Solve(cost, disp=0)
    kind = 'solver class   ' if isinstance(nested, type) else 'solver instance'
    print('%s: member iterations %s (limit 5), total evaluations reported %d, real cost calls %d'
          % (kind, s._all_iters, s._total_evals, real[0]))
