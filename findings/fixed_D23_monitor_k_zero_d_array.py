"""D23 (fixed): Monitor.__call__ chose elementwise k-scaling for every cost with a __len__ attribute; a 0-d numpy array
(PowellDirectionalSolver records squeeze(cost(x))) has one but cannot be iterated, so a monitor with k set raised
'TypeError: iteration over a 0-d array'.  Noticed by a seeding agent; decided by C20.j."""
import numpy as np
from mystic.monitors import Monitor
from mystic.solvers import PowellDirectionalSolver
from mystic.models import rosen

for k in (None, -1, 2.0):
    m = Monitor(); m.k = k
    m([1., 2.], np.array(3.0)); m([1., 2.], np.float64(4.0)); m([1., 2.], [6.0, 7.0]); m([1., 2.], 8.0)
    assert [float(v) if not isinstance(v, list) else v for v in m.y] == [3.0, 4.0, [6.0, 7.0], 8.0], (k, m.y)
s = PowellDirectionalSolver(3); s.SetInitialPoints([0.5, 1.5, 0.7]); s.SetEvaluationLimits(generations=3)
m = Monitor(); m.k = 2.0; s.SetGenerationMonitor(m); s.Solve(rosen)
assert len(m) == s.generations + 1 and float(m.y[0]) == 397.0
print('ok')
