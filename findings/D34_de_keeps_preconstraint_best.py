"""D34 (known finding): differential evolution keeps its all-time best (bestSolution / bestEnergy) across a change of constraints.
When constraints are installed mid-run - SetConstraints between steps, or a collapse applied by Collapse() - the stored best
is neither re-constrained nor re-evaluated; later (constrained) trials rarely beat it, so the reported solution violates the
constraints in force (C03) / the collapse that was applied (C11).  Exits 1 while the behaviour is present."""
import sys
from mystic.solvers import DifferentialEvolutionSolver
from mystic.termination import Or, ChangeOverGeneration, CollapseAt
from mystic.tools import random_seed

random_seed(321)
s = DifferentialEvolutionSolver(3, 12)
s.SetRandomInitialPoints([-3] * 3, [3] * 3)
s.SetEvaluationLimits(generations=2000)
s.SetTermination(Or(ChangeOverGeneration(1e-10, 15), CollapseAt(0.0, tolerance=1e-2, generations=15)))
s.Solve(lambda x: sum((xi - ti) ** 2 for xi, ti in zip(x, [1, 1e-3, 2])))
mask = s._termination[1].__doc__ if False else None
info = s.Terminated(info=True)
print('stop:', info[:70]); print('best:', list(s.bestSolution))
from mystic.termination import state
masks = [v.get('mask') for v in state(s._termination).values() if isinstance(v, dict) and v.get('mask')]
print('collapse mask:', masks)
fixed = set()
for m in masks:
    fixed |= set(m) if isinstance(m, (set, list, tuple)) else set()
bad = [i for i in fixed if s.bestSolution[i] != 0.0]
print('collapsed parameters not at their target:', bad)
sys.exit(1 if bad else 0)
