"""D18 (fixed by the 'raw parameter files import numpy as np' commit): a raw/support/converge file written from a monitor
that recorded numpy arrays could not be read back on this numpy (np.float64(...) in the file, np undefined)."""
import os, tempfile
import numpy as np
from mystic.monitors import Monitor
from mystic.munge import write_raw_file, read_history

d = tempfile.mkdtemp(); os.chdir(d)
m = Monitor()
m(np.array([1., 2.]), np.float64(3.0)); m(np.array([1.5, 2.5]), np.float64(2.0))
write_raw_file(m, 'raw_p.py')
steps, energy = read_history('raw_p.py')
assert [[float(v) for v in s] for s in steps] == [[1., 2.], [1.5, 2.5]] and [float(e) for e in energy] == [3.0, 2.0]
print('ok')
