"""D25-D30 (fixed), all noticed by seeding agents of round 4 on the unchanged tree and then decided by rules:
D25 discrete/integers/rounded/precision: one out-of-range index switched the whole index selection off (C16.a#mask-atomic)
D26 impose_at: a list of targets with an out-of-range index raised ValueError (its own docstring example); a negative
    out-of-range index raised IndexError (C16.g / C11.f reference)
D30 CollapseAt(target=[...]): the whole per-parameter list was handed to impose_at (C11.h)
D27 write_support_file / write_converge_file divided the costs of a Monitor with k by k twice (C20.k)
D28 bounded / impose_bounds ignored a negative index (C16.h#negative-index)
D29 _symbolic restore(): _1 restored before _10 -> wrong solved form with 11 or more named variables (C12.j)"""
import os, tempfile
from mystic.constraints import integers, rounded, impose_at, impose_bounds
import mystic.symbolic as ms
from mystic.monitors import Monitor
from mystic.munge import write_support_file, write_converge_file, read_raw_file

ident = lambda x: x
assert [float(v) for v in integers(float, index=(0, 7))(ident)([0.6, 1.7])] == [1.0, 1.7]
assert [float(v) for v in rounded(1, index=(0, 7))(ident)([0.66, 1.77])] == [0.7, 1.77]
d = impose_at([1, 3, 4, 5, 7], [0, 2, 4, 6])(ident)
assert [int(v) for v in d([1, 1, 1, 1])] == [1, 0, 1, 2] and [int(v) for v in d([1, 1])] == [1, 0]
assert [float(v) for v in impose_at([-5], 7.)(ident)([1., 1., 1.])] == [1., 1., 1.]
assert [float(v) for v in impose_bounds((0, 5), index=(-1,))(ident)([9., 9., 9.])] == [9., 9., 5.]
assert ms.solve('k + b = 3', variables=list('abcdefghijk'), target='k') == 'k = 3 - b'
os.chdir(tempfile.mkdtemp())
m = Monitor(k=-1)
for c in (1., 2., 5.):
    m([c, c + 1], c, id=0)
write_support_file(m, 'sup_d27.py'); write_converge_file(m, 'cnv_d27.py')
assert read_raw_file('sup_d27.py')[1] == [1., 2., 5.] and read_raw_file('cnv_d27.py')[1] == [1., 2., 5.]
from mystic.solvers import NelderMeadSimplexSolver
from mystic.termination import Or, ChangeOverGeneration, CollapseAt
s = NelderMeadSimplexSolver(3); s.SetInitialPoints([1.0, 1e-4, 2.0]); s.SetEvaluationLimits(generations=300)
s.SetTermination(Or(ChangeOverGeneration(1e-12, 200), CollapseAt([5., 0., 5.], tolerance=1e-2, generations=10)))
s.Solve(lambda x: (x[0] - 1) ** 2 + (x[1] - 1e-4) ** 2 + (x[2] - 2) ** 2)
assert s.bestSolution[1] == 0.0
print('ok')
