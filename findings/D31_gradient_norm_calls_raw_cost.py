"""D31 (known finding): the termination condition GradientNormTolerance estimates the gradient by finite differences of the RAW
cost (inst._cost[1]) at bestSolution + eps: with strict ranges the user's cost is called outside the box (C02), and these
calls are not counted or logged (C04).  Exits 1 while the behaviour is present."""
import sys
from mystic.solvers import PowellDirectionalSolver
from mystic.termination import GradientNormTolerance

calls = []


def cost(x):
    calls.append(list(x))
    return sum((xi - 3) ** 2 for xi in x)


s = PowellDirectionalSolver(2); s.SetInitialPoints([.5, .5]); s.SetStrictRanges([0, 0], [1, 1]); s.SetEvaluationLimits(generations=50)
s.Solve(cost, GradientNormTolerance(1e-5))
outside = [x for x in calls if any(v < 0 or v > 1 for v in x)]
print(len(outside), 'of', len(calls), 'cost calls outside the box;', 'counter', s.evaluations)
sys.exit(1 if outside or s.evaluations != len(calls) else 0)
