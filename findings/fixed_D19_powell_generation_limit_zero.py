"""D19 (fixed): Powell with a generation limit of 0 kept an empty step monitor after its stop at generation 0, so each
further Step() repeated the initial evaluation (a regression of the earlier fix 3e4f2d4, found by C04.k)."""
from mystic.solvers import PowellDirectionalSolver
from mystic.models import rosen

calls = [0]


def cost(x):
    calls[0] += 1
    return rosen(x)


s = PowellDirectionalSolver(3); s.SetInitialPoints([0.5, 1.5, 0.7]); s.SetEvaluationLimits(generations=0)
for i in range(4):
    s.Step(cost)
assert calls[0] == 1 and s.evaluations == 1 and s.generations == 0 and len(s._stepmon) == 1, (calls[0], s.evaluations, len(s._stepmon))
print('ok')
