"""D14/D15 (fixed by 8ca2bf9, 8293872): numpy.sum(<generator>) raised TypeError in constraints.bounded and in
measures.expectation/_expected_moment.  Passes on the repaired tree; on the pinned tree every call below raised."""
from mystic.constraints import bounded, impose_bounds
from mystic.math.measures import expectation, expected_variance
from mystic.math.discrete import measure, point_mass

seq = [0.123, 1.244, -4.755, 10.731, 6.207]
out = list(bounded(seq, (0, 5)))
assert out == [0.123, 1.244, 0.0, 5.0, 5.0], out
out = list(impose_bounds([(0, 5), (7, 10)])(lambda x: x)(seq))
assert all(0 <= v <= 5 or 7 <= v <= 10 for v in out), out
f = lambda x: x ** 2
assert abs(expectation(f, [1., 2., 3.], [.2, .3, .5]) - 5.9) < 1e-12
assert abs(expected_variance(f, [1., 2., 3.], [.2, .3, .5]) - (.2 * 1 + .3 * 16 + .5 * 81 - 5.9 ** 2)) < 1e-9
m = measure([point_mass(1., .5), point_mass(2., .5)])
assert abs(m.expect(lambda x: x[0]) - 1.5) < 1e-12
print('ok')
