"""D46-D70 (all fixed): the second batch of defects found by the round-5 hunters; every assert below fails on the tree before
the named repair and passes after it.  Run with PYTHONPATH=<tree> /venv/bin/python <this file>.

D46 C20  m[-1] = other inserted the records in front of the last one (slice [-1:0] is empty)
D47 C10  GradientNormTolerance differentiated the raw cost without the registered ExtraArgs (TypeError / wrong gradient)
D48 C04/C06  Step did not Finalize() a solver it found already terminated: Powell's last generation was never logged
D49 C16  bounded / impose_bounds truncated the float bounds for integer input ([0, 3, 10] in (0.5, 5.5) -> [0, 3, 5])
D50 C16/C11  impose_at truncated a float target on integer input
D51 C12  replace_variables replaced substrings: a variable called e was replaced inside 1e+20
D52 C20  read_import looked the parameter file up by module name (first directory only, stale byte code, shadowed by stdlib names)
D53 C16  synchronized ignored tuple-valued mask entries for ndarray input
D54 C16/C11  impose_as added the offset for a pair whose partner is out of range
D55 C05  SetEvaluationLimits(maxiter=.., maxfun=.., new=True) replaced the given limits by the defaults
D56 C05  an ensemble with a limit of 0 raised TypeError instead of returning (member forced live without an objective)
D57 C13  'x0 > x1 if x2 else x3': the tolerance was appended to the last operand of the bound only (not strict)
D58 C13  the parsers replaced variable tokens inside longer names (base p: exp2 -> exx[2])
D59 C11  measure collapses reported in set / where format could not be applied (AttributeError)
D60 C19  scenario.update dropped the values when the scenario held fewer
D61 C02  wrap_bounds handed a NaN coordinate to the cost
D62 C02  an infinite side of the strict ranges re-drew population members to NaN
D63 C07  random_seed left numpy unseeded for seeds numpy refuses (-5, 2**40, 1.5, 'abc')
D64 C07  DifferentialEvolutionSolver2 raised with a map that returns an iterator (builtin map, SerialPool().map)
D65 C13  constraints_parser renames prod( into product(, a name the generated solver's namespace did not bind (numpy >= 2)
D66 C20  Monitor item / slice assignment copied the other monitor's k-scaled costs without conversion
D67 C19  compose / _list_of_measures tested `not weights`: a zero weight given as a 1x1 array became 1.0, larger arrays raised
D68 C19  _flat did not flatten the array slices _nested cuts out of an ndarray parameter vector
D69 C13/C14  the parsers renamed var( / prod( / mean( inside nanvar( / cumprod( / nanmean(
D70 C07  SetNestedSolver(cls, NP=n) stored NP on the solver class: every later ensemble inherited it
"""
import os
import random
import shutil
import sys
import tempfile

import numpy as np

from mystic.monitors import Monitor
from mystic.models import rosen
from mystic.solvers import (NelderMeadSimplexSolver, PowellDirectionalSolver, DifferentialEvolutionSolver,
                            DifferentialEvolutionSolver2, BuckshotSolver)
from mystic.termination import VTR, GradientNormTolerance

ident = lambda x: x

# D46
m = Monitor(); [m([i], i) for i in range(3)]
n = Monitor(); n([9], 9)
m[-1] = n
assert m.x == [[0], [1], [9]] and list(m.y) == [0, 1, 9], (m.x, m.y)

# D47
s = NelderMeadSimplexSolver(2); s.SetInitialPoints([1., 1.])
s.SetTermination(GradientNormTolerance(1e-3)); s.SetEvaluationLimits(200, 2000)
s.Solve(lambda x, a: (x[0] - a) ** 2 + (x[1] - a) ** 2, ExtraArgs=(2,))
assert abs(s.bestSolution[0] - 2) < 1e-2

# D48
s = PowellDirectionalSolver(3); s.SetInitialPoints([0.8, 1.2, 0.7])
s.SetGenerationMonitor(Monitor()); s.SetTermination(VTR(1e-12))
for i in range(3):
    s.Step(rosen)
s.SetEvaluationLimits(generations=2)
s.Solve()
assert s._stepmon.y[-1] == s.bestEnergy and len(s._stepmon) == s.generations + 1

# D49, D50
from mystic.constraints import bounded, impose_bounds, impose_at, impose_as
assert list(bounded([0, 3, 10], (0.5, 5.5))) == [0.5, 3.0, 5.5]
assert all(0.25 <= v <= 0.75 for v in impose_bounds((0.25, 0.75), clip=False)(ident)([7, 0, -3]))
assert impose_at([0], 1.5)(ident)([1, 1]) == [1.5, 1.0]
assert impose_at([1, 3, 4, 5, 7], [0, 2, 4, 6])(ident)([1, 1, 1, 1]) == [1, 0, 1, 2]

# D51
from mystic.symbolic import replace_variables, simplify, generate_constraint, generate_solvers
assert replace_variables('1e+20*a + e <= 1', list('abcde')) == '1e+20*$0 + $4 <= 1'
assert replace_variables('x3 = max(y,x) + x', ['x', 'y', 'z', 'x3']) == '$3 = max($1,$0) + $0'

# D52
from mystic.munge import write_raw_file, read_raw_file
tmp = tempfile.mkdtemp()
try:
    os.makedirs(os.path.join(tmp, 'run1')); os.makedirs(os.path.join(tmp, 'run2'))
    m1 = Monitor(); m1([1., 2.], 3.)
    m2 = Monitor(); m2([7., 8.], 9.)
    sys.path.insert(0, tmp)            # a script directory: '' is not on the path, as when a script file is run
    had = sys.path[:]
    sys.path[:] = [p for p in sys.path if p not in ('', '.')]
    try:
        write_raw_file(m1, os.path.join(tmp, 'run1', 'paramlog.py'))
        write_raw_file(m2, os.path.join(tmp, 'run2', 'paramlog.py'))
        a = read_raw_file(os.path.join(tmp, 'run1', 'paramlog.py'))
        b = read_raw_file(os.path.join(tmp, 'run2', 'paramlog.py'))
        assert a[1] == [3.0] and b[1] == [9.0], (a, b)
        write_raw_file(m2, os.path.join(tmp, 'run2', 'trace.py'))      # the name of a standard-library module
        assert read_raw_file(os.path.join(tmp, 'run2', 'trace.py'))[1] == [9.0]
    finally:
        sys.path[:] = had
finally:
    shutil.rmtree(tmp)

# D53, D54
from mystic.tools import synchronized, random_seed, wrap_bounds
r = synchronized({3: (1, -1), 0: (2, lambda v: v + 100)})(ident)(np.array([0., 1., 2., 3., 4.]))
assert list(r) == [102., 1., 2., -1., 4.], r
c = impose_as([(7, 1)], 10)(ident)
assert c([1., 2., 3.]) == [1., 2., 3.]

# D55
s = NelderMeadSimplexSolver(3); s.SetInitialPoints([.8, 1.2, .7]); s.SetTermination(VTR(1e-30)); s.SetObjective(rosen)
for i in range(4):
    s.Step()
s.SetEvaluationLimits(maxiter=2, maxfun=10 ** 6, new=True)
s.Solve()
assert s.generations == 5, s.generations

# D56
e = BuckshotSolver(2, npts=3); e.SetStrictRanges([-3, -3], [3, 3]); e.SetEvaluationLimits(0, None)
e.SetTermination(VTR(1e-30)); e.SetObjective(lambda x: sum(i * i for i in x))
e.Solve()
assert e.generations == 0

# D57, D58
c = generate_constraint(generate_solvers('x0 > x1 if x2 else x3', nvars=4))
assert c([0., 1., 1., 5.])[0] > 1.0
c = generate_constraint(generate_solvers('p0 >= exp2(p1)', variables='p', nvars=3))
assert c([0., 2., 1.])[0] == 4.0

# D59
from mystic.termination import Or, CollapseWeight, ChangeOverGeneration as COG
from mystic.math.discrete import product_measure, compose, scenario
npts = (2, 2)


def cost(rv):
    c = product_measure().load(rv, npts)
    return (c[0].weights[1]) ** 2 + (c[0].positions[0] - 1) ** 2 + (c[0].positions[1] + 1) ** 2 + (c[1].positions[0] - 2) ** 2


def normalize(rv):
    c = product_measure().load(rv, npts)
    for mm in c:
        if mm.mass != 1.0 and mm.mass != 0:
            mm.normalize()
    return c.flatten()


s = NelderMeadSimplexSolver(8); s.SetInitialPoints([.5, .5, 0., .5, .5, .5, 0., 1.])
mon = Monitor(); mon._npts = npts; s.SetGenerationMonitor(mon)
s.SetStrictRanges([0, 0, -3, -3, 0, 0, -3, -3], [1, 1, 3, 3, 1, 1, 3, 3]); s.SetConstraints(normalize)
s.SetEvaluationLimits(generations=3000, evaluations=100000)
s.SetTermination(Or(COG(1e-14, 300), CollapseWeight(tolerance=1e-3, generations=40, mask=set())))
s.Solve(cost)                      # AttributeError: 'set' object has no attribute 'items' before the repair

# D60
c = compose([[1., 2., 3.], [4., 5.]], [[.2, .3, .5], [.4, .6]])
sc = scenario(c)
p = [.1, .1, .8, 7., 8., 9., .5, .5, 10., 11.] + [1., 2., 3., 4., 5., 6.]
sc.update(p)
assert sc.values == [1., 2., 3., 4., 5., 6.] and sc.flatten(all=True) == p

# D61, D62
calls = []
g = wrap_bounds(lambda x: calls.append(list(x)) or 0.0, [0, 0], [1, 1])
assert g(np.array([np.nan, 0.5])) == np.inf and not calls
s = DifferentialEvolutionSolver(2, 6); s.SetRandomInitialPoints([-3, -3], [3, 3]); s.SetStrictRanges([-np.inf, -np.inf], [1., 1.])
assert not np.isnan(s._clipGuessWithinRangeBoundary(np.array([2., 0.5]), at=False)).any()

# D63
for seed in (-5, 2 ** 40 + 1, 1.5, 'abc'):
    random_seed(seed); a = (random.random(), np.random.rand())
    random_seed(seed); b = (random.random(), np.random.rand())
    assert a == b, seed

# D64
random_seed(7)
s = DifferentialEvolutionSolver2(3, 8); s.SetRandomInitialPoints([-2] * 3, [2] * 3); s.SetEvaluationLimits(5, 10000)
s.SetMapper(map)
s.Solve(rosen)

# D65, D69
c = generate_constraint(generate_solvers('x0 = prod([x1,x2])'))
assert c([2., 4., 3.])[0] == 12.0
c = generate_constraint(generate_solvers('x0 = cumprod([x1,x2])[-1]'))
assert c([0., 2., 3.])[0] == 6.0

# D66
a = Monitor(k=-1); [a([float(i)], float(i + 1)) for i in range(3)]
b = Monitor(); [b([float(i)], 11. + i) for i in range(2)]
a[:] = b
assert list(a.y) == [11., 12.], a.y

# D67, D68
from mystic.math.measures import _flat, _nested
assert [[float(w) for w in ws] for ws in compose(np.array([[3.0]]), np.array([[0.0]])).wts] == [[0.0]]
p = np.array([.5, .5, 1., 2., 1., 3.])
assert [float(v) for v in _flat(_nested(p, (2, 1, 3)))] == list(p)

# D70
from mystic.solvers import LatticeSolver
other = LatticeSolver(2, [2, 1]); other.SetNestedSolver(DifferentialEvolutionSolver, NP=7)
assert getattr(DifferentialEvolutionSolver, 'NP', None) is None
print('ok')
