"""D35 (fixed): PowellDirectionalSolver.Finalize dumped the solver (periodic save) BEFORE clearing _live: after SetPenalty between
iterations, a solver restored from that dump kept optimising the old decorated objective while the original re-decorates.
Noticed by a seeding agent; decided by C06.c once _live was counted as checkpointed state."""
import os, tempfile
from mystic.solvers import PowellDirectionalSolver, LoadSolver
from mystic.models import rosen


def cost(x):
    return rosen(x)


f = os.path.join(tempfile.mkdtemp(), 'd35.pkl')
s = PowellDirectionalSolver(3); s.SetInitialPoints([0.8, 1.2, 0.7]); s.SetObjective(cost); s.SetSaveFrequency(1, f)
for i in range(4):
    s.Step()
s.SetPenalty(lambda x: 10. * abs(x[0] - 0.5))
r = LoadSolver(f)
for i in range(3):
    s.Step(); r.Step()
assert abs(s.bestEnergy - r.bestEnergy) < 1e-12, (s.bestEnergy, r.bestEnergy)
print('ok')
