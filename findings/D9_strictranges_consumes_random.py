"""demo of known finding D9 (C07): SetStrictRanges(tight=True) consumes the global random stream.
run: /venv/bin/python /verif/findings/D9_strictranges_consumes_random.py"""
import random, mystic
from mystic.solvers import DifferentialEvolutionSolver as DE
from mystic.models import rosen
def run(order):
    mystic.random_seed(7)
    s = DE(3, 8)
    if order == 'ranges-first':
        s.SetStrictRanges([0, 0, 0], [2, 2, 2], tight=True); s.SetRandomInitialPoints([0]*3, [2]*3)
    else:
        s.SetRandomInitialPoints([0]*3, [2]*3); s.SetStrictRanges([0, 0, 0], [2, 2, 2], tight=True)
    s.SetObjective(rosen); s.SetEvaluationLimits(5, 10**6)
    s.Solve()
    return list(s.bestSolution), s.bestEnergy
a, b = run('ranges-first'), run('points-first')
print('same seed, same settings, different order of configuration calls:')
print('  ', a); print('  ', b)
print('identical' if a == b else 'DIFFERENT trajectories (the Set* call consumed random numbers)')
