"""demo of known finding D11 (C04): Powell's generation counter advances by 2 after a mid-run Set*.
run: /venv/bin/python /verif/findings/D11_powell_generations.py"""
from mystic.solvers import PowellDirectionalSolver, NelderMeadSimplexSolver
from mystic.models import rosen
for S in (NelderMeadSimplexSolver, PowellDirectionalSolver):
    s = S(3); s.SetInitialPoints([0.5, 1.5, 2.0]); s.SetObjective(rosen); s.SetEvaluationLimits(100, 10000)
    for i in range(10):
        s.Step()
        if i == 4: s.SetPenalty(lambda x: 0.0)   # any reconfiguration mid-run
    print(S.__name__, '10 Step() calls -> generations =', s.generations)
