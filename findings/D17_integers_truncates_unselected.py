"""D17 (known finding, C16): integers(index=...) with the default ints=True casts the whole vector to int after the
selection, so entries that were NOT selected are truncated as well.  Exits 1 while the defect is present."""
from mystic.constraints import integers

out = integers(index=(0,))(lambda x: x)([1.6, 2.7, 3.2])
print('integers(index=(0,))([1.6, 2.7, 3.2]) ->', [float(v) for v in out])
ok = float(out[0]) == 2.0 and float(out[1]) == 2.7 and float(out[2]) == 3.2
raise SystemExit(0 if ok else 1)
