"""demo of known findings D3a/D3b (C04): DE2's evaluation counter is recomputed, not counted.
run: /venv/bin/python /verif/findings/D3_de2_counter.py   (prints real calls vs solver.evaluations)"""
import mystic
from mystic.solvers import DifferentialEvolutionSolver2 as DE2
from mystic.monitors import Monitor
calls = [0]
def cost(x):
    calls[0] += 1
    return sum(i*i for i in x)
mystic.random_seed(1)
s = DE2(3, 8); s.SetRandomInitialPoints([-5]*3, [5]*3); s.SetEvaluationMonitor(Monitor()); s.SetObjective(cost)
for i in range(3): s.Step()
s.SetEvaluationMonitor(Monitor(), new=True)
for i in range(2): s.Step()
print('D3b: real calls', calls[0], 'evaluations', s.evaluations)
calls[0] = 0
def cost2(x):
    calls[0] += 1
    return float('inf') if x[0] > 0 else sum(i*i for i in x)
s = DE2(3, 8); s.SetRandomInitialPoints([-5]*3, [5]*3); s.SetObjective(cost2)
for i in range(3): s.Step()
print('D3a: real calls', calls[0], 'evaluations', s.evaluations)
