"""D21 (fixed): PowellDirectionalSolver logs iteration k only at the start of iteration k+1 (or in Finalize).
SetGenerationMonitor - also reached through Step(StepMonitor=...) - resynchronised the energy history with the step
monitor without writing that pending record, so installing a monitor between iterations lost one generation for good.
Found by C04.l (abstract simulation of the log protocol under reconfiguration) after two seeding agents noticed it."""
from mystic.solvers import PowellDirectionalSolver
from mystic.monitors import Monitor
from mystic.models import rosen


def run(swap_at):
    s = PowellDirectionalSolver(3); s.SetInitialPoints([0.5, 1.5, 0.7]); s.SetEvaluationLimits(generations=8)
    s.SetGenerationMonitor(Monitor())
    i = 0
    while True:
        if i == swap_at:
            before = s.generations
            s.SetGenerationMonitor(Monitor())
            assert s.generations == before, (swap_at, before, s.generations)
        msg = s.Step(rosen)
        i += 1
        if msg:
            break
    return s.generations, len(s._stepmon), s.bestEnergy, s.evaluations


ref = run(-1)
for k in range(9):
    assert run(k) == ref, (k, run(k), ref)
print('ok')
