"""D16 (fixed by 4e2942f): When/And/Or unpacked a compound condition given as their only argument.
Passes on the repaired tree; on the pinned tree When(Or(a,b)) answered all(a,b)."""
import dill
from mystic.termination import When, And, Or, VTR


class S:
    energy_history = [5.0, 4.0]; bestEnergy = 4.0; generations = 3; evaluations = 10; _fcalls = [10]


s = S(); a = VTR(10.0); b = VTR(0.1)      # a satisfied, b not
assert a(s) and not b(s)
assert When(Or(a, b))(s) is True and len(When(Or(a, b))) == 1
assert And(Or(a, b))(s) is True
assert Or(And(a, b))(s) is False
for c in (When(Or(a, b)), And(Or(a, b)), And(Or(a, b), a), Or(And(a, b)), And(a, b), Or(a)):
    c2 = dill.loads(dill.dumps(c))
    assert len(c2) == len(c) and c2(s) == c(s)
print('ok')
