"""D37 (fixed): Lnorm computed sum(abs(w**p)): a fractional p with a negative entry was invalid and the function's own handler
silently answered with the infinity norm (Lnorm([2,-4], 1.5) = 4.0 instead of 4.894), so GradientNormTolerance(norm=1.5) could be
satisfied when its documented inequality was not.  D38 (fixed): m.prepend(m) and Monitor(k=..).extend(itself) never returned."""
from mystic.math.distance import Lnorm
from mystic.monitors import Monitor

assert abs(float(Lnorm([2, -4], 1.5, axis=0)) - (2 ** 1.5 + 4 ** 1.5) ** (1 / 1.5)) < 1e-12
for k in (None, 2.0):
    m = Monitor(); m.k = k
    m([1.], 1., id=0); m([2.], 2., id=1)
    m.extend(m); assert len(m) == 4 and [float(v) for v in m.y] == [1., 2., 1., 2.]
    m.prepend(m); assert len(m) == 8
print('ok')
