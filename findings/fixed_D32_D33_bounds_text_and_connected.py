"""D32 (fixed): boundsconstrain sent the bounds text through simplify; sympy re-printed the numbers with 15 significant digits
(1/3 -> 0.333333333333333, below the bound), an all-open box raised, and random test points were drawn (former known
finding D9).  D33 (fixed): tools.connected stopped at the first group a pair touched and could keep a key among its own
members: impose_as tied only part of a chain, impose_collapse counted a weight twice."""
from mystic.constraints import boundsconstrain, impose_as
from mystic.math.measures import impose_collapse
from mystic.tools import connected

assert boundsconstrain([1 / 3.], [2 / 3.])([0.]) == [1 / 3.] and boundsconstrain([1 / 3.], [2 / 3.])([1.]) == [2 / 3.]
assert boundsconstrain([None, None], [None, None])([5, 7]) == [5, 7]
assert connected([(2, 3), (0, 1), (1, 2)]) == {2: {0, 1, 3}} and connected([(0, 3), (3, 0)]) == {0: {3}}
r = impose_as([(2, 3), (0, 1), (1, 2)])(lambda x: x)([1, 2, 3, 4])
assert len(set(r)) == 1, r
x = [1, 2, 3, 4, 5.]; w = [.1, .2, .3, .25, .15]
for pairs in ([(0, 3), (3, 0)], [(0, 1), (1, 2), (2, 0)], [(1, 1)]):
    assert abs(sum(impose_collapse(pairs, x, w)[1]) - 1.0) < 1e-12, pairs
print('ok')
