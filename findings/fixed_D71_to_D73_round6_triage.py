"""D71-D73 (all fixed), found while triaging the round-6 seeds.  Every assert fails on the tree before the named repair.
D71 C20  monitors._load read support files by module name: an already imported module of that name shadowed the file (repair 5a846ca)
D72 C19  scenario.update with the stored values an ndarray (after load(<ndarray>)) broadcast-added or raised (repair 89777ca)
D73 C07  re-decorating the objective under strict ranges drew random numbers for members inside the box (repair 7c43727)
"""
import os
import random
import shutil
import tempfile

import numpy as np

from mystic.monitors import Monitor, _load
from mystic.munge import write_support_file

# D71
import trace                                    # a standard-library module that is already imported
tmp = tempfile.mkdtemp()
try:
    m = Monitor(); m([7., 8.], 9.); m([7.5, 8.], 8.)
    write_support_file(m, os.path.join(tmp, 'trace.py'))
    assert list(_load(os.path.join(tmp, 'trace.py')).y) == [9., 8.]
finally:
    shutil.rmtree(tmp)

# D72
from mystic.math.discrete import scenario
arr = np.array([.5, .5, 1., 2., .2, .3, .5, 4., 5., 6., 10, 11, 12, 13, 14, 15.])
s = scenario().load(arr, (2, 3))
s.update(list(arr[:10]) + [1., 2.])
assert [float(v) for v in s.values] == [1., 2., 12., 13., 14., 15.]

# D73
from mystic.solvers import DifferentialEvolutionSolver
from mystic.tools import random_seed
from mystic.models import rosen


def run(register_every_step):
    random_seed(7)
    s = DifferentialEvolutionSolver(3, 8)
    s.SetRandomInitialPoints([0.5] * 3, [1.5] * 3)
    s.SetStrictRanges([0, 0, 0], [5, 5, 5])
    if not register_every_step:
        s.SetObjective(rosen)
    for i in range(8):
        s.Step(rosen) if register_every_step else s.Step()
    return [list(map(float, p)) for p in s.population], float(s.bestEnergy), random.random()


assert run(True) == run(False)
print('ok')
