"""D22 (fixed): read_raw_file / read_converge_file read a parameter file with an import statement (munge.read_import); the
interpreter caches modules by name, so a second read of a file of the same name in one process returned the FIRST contents,
whatever had been written since.  Noticed by a seeding agent; decided by C20.i."""
import os, tempfile
from mystic.munge import write_raw_file, read_raw_file
from mystic.monitors import Monitor

d = tempfile.mkdtemp()
f = os.path.join(d, 'pfile_d22.py')
m = Monitor(); m([1., 2.], 3.); m([2., 3.], 1.)
write_raw_file(m, f)
assert read_raw_file(f) == [[[1.0, 2.0], [2.0, 3.0]], [3.0, 1.0]]
m2 = Monitor(); m2([5., 6.], 7.); m2([8., 9.], 0.5); m2([1., 1.], 0.25)
write_raw_file(m2, f)
assert read_raw_file(f) == [[[5.0, 6.0], [8.0, 9.0], [1.0, 1.0]], [7.0, 0.5, 0.25]], read_raw_file(f)
print('ok')
