"""D36 (known finding): an ensemble whose nested solver is a configured INSTANCE works in run-to-completion mode but raises
TypeError('NoneType' object is not callable) in step-wise mode (Solve(step=True) / Step()): _Solve hands such members the
ensemble's decorated objective, _Step passes its own cost argument, which is None.  Exits 1 while the behaviour is present."""
import sys
from mystic.solvers import LatticeSolver, NelderMeadSimplexSolver
from mystic.models import rosen
from mystic.termination import ChangeOverGeneration as COG

res = {}
for step in (False, True):
    n = NelderMeadSimplexSolver(2); n.SetTermination(COG(1e-6, 5)); n.SetEvaluationLimits(50, None)
    s = LatticeSolver(2, (2, 2)); s.SetNestedSolver(n); s.SetStrictRanges([0, 0], [2, 3])
    try:
        s.Solve(rosen, step=step); res[step] = float(s.bestEnergy)
    except TypeError as e:
        res[step] = 'TypeError: %s' % e
print(res)
sys.exit(0 if res[True] == res[False] else 1)
