"""Follow-ups of the second, third and fourth review of the repairs (DESIGN section 13).  Probes used while reading; never part of a check.
Every assert fails on the tree before the named repair (run: PYTHONPATH=/repo /venv/bin/python findings/fixed_review_followups_rounds2_to_4.py).
b3593d5 C20  read_import took the FIRST entry off sys.path after executing the file (pop(0))
79d9b03 C20  numpy.ndim(y) converted a ragged record ([cost, [gradient]]) and raised in the reporting monitors
57ad44f C19  scenario(pm, 0 / False / iterator) raised (len of an unsized object)
7532bc5 C16  "whole" is not "storable": 300 into int8, 5 into bool, 1e19 into int64, a complex target
9444664 C16  a cycle of pairs hung the offset loop of impose_as
3fb9e92 C16  None target; float16 input that cannot store the bounds
556587b C16  suppress summed the spread in the integer type of the input (uint8: 300 -> 44)
3c327b1 C12  simplify(all=False) simplified every sign case (2**n work)
074f335 C17  and_: threshold below the step of a strict inequality, above the rounding noise of consistent members
4defe47 C14  penalty_parser appended the tolerance to the bare text of the bound
28263cf C18  distances: float16 overflow / long double narrowed / object input
"""
import os
import sys
import tempfile
import warnings

import numpy as np

warnings.simplefilter('ignore')

# b3593d5
from mystic.munge import read_import
d = tempfile.mkdtemp()
open(os.path.join(d, 'sup.py'), 'w').write("import sys\nsys.path.insert(0, '/opt/mine')\nparams = [[1.0]]\ncost = [2.0]\n")
read_import(os.path.join(d, 'sup.py'), 'params', 'cost')
assert '/opt/mine' in sys.path and d not in sys.path
sys.path.remove('/opt/mine')

# 79d9b03
from mystic.monitors import VerboseMonitor
m = VerboseMonitor(1)
_out, sys.stdout = sys.stdout, open(os.devnull, 'w')
try:
    m([1., 2.], [1.0, [2.0, 3.0]])
finally:
    sys.stdout = _out
assert m.y == [[1.0, [2.0, 3.0]]]

# 57ad44f
from mystic.math.discrete import scenario, compose
pm = compose([[1., 2.], [3., 4.]])
assert list(scenario(pm, 0).values) == [] and list(scenario(pm, (i for i in range(4))).values) == [0, 1, 2, 3]
assert list(scenario(pm, np.array([0.0, 1.0, 2.0, 3.0])).values) == [0.0, 1.0, 2.0, 3.0]

# 7532bc5 / 3fb9e92
from mystic.constraints import impose_at, bounded, impose_as
same = lambda x: x
assert list(impose_at([1], 300)(same)(np.array([1, 2, 3], dtype=np.int8))) == [1, 300, 3]
assert list(impose_at([1], 5)(same)([True, False, True])) == [1, 5, 1]
assert impose_at([1], 1e19)(same)([1, 2, 3])[1] == 1e19
assert impose_at([1], 1 + 2j)(same)([1., 2., 3.])[1] == 1 + 2j
assert list(impose_at([1], 0.0)(same)([1, 2, 3])) == [1, 0, 3] and isinstance(impose_at([1], 0.0)(same)([1, 2, 3])[0], (int, np.integer))
assert np.isnan(impose_at([0], None)(same)([1, 2, 3])[0])
assert list(bounded(np.array([5, 6], dtype=np.int8), (300, 400))) == [300., 300.]
assert list(bounded([True, False], (2, 5))) == [2., 2.]
assert list(bounded(np.array([1., 5., 9.], dtype=np.float16), (1e5, 1e6))) == [1e5, 1e5, 1e5]
assert bounded([1, 7, 9], (2, 5)).dtype.kind == 'i'

# 9444664
assert impose_as([(0, 1), (1, 0)], None)(same)([1, 2, 3]) == [1, 1, 3]
assert impose_as([(0, 1), (1, -3)], None)(same)([1, 2, 3]) == [1, 1, 3]

# 556587b
from mystic.tools import suppress
assert suppress(np.array([200, 100, 250], dtype=np.uint8), 150, clip=False) == [250.0, 0.0, 300.0]
assert suppress([0, 5, 3], clip=False) == [0, 5, 3] and suppress([1, 5, 3], tol=2, clip=False) == [0.0, 5.5, 3.5]
assert suppress([], clip=False) == []

# 3c327b1
import random
import mystic.symbolic as _ms
from mystic.symbolic import simplify
c = ' + '.join('abs(x%d)' % i for i in range(6)) + ' <= 1'
random.seed(0)
_calls, _orig = [], _ms._simplify
_ms._simplify = lambda *a, **k: (_calls.append(1), _orig(*a, **k))[1]
try:
    simplify(c)
finally:
    _ms._simplify = _orig
assert len(_calls) == 1, 'every sign case was simplified (%d)' % len(_calls)

# 074f335 (and ef0205b, 9f15149)
from mystic.constraints import and_, integers
from mystic.symbolic import generate_constraint, generate_solvers
from mystic.math.measures import impose_sum, impose_spread
gt = generate_constraint(generate_solvers("x0 > 1200000.0"))


@integers()
def whole(x):
    return x


log = []
kw = dict(onexit=lambda x: log.append('onexit') or x, onfail=lambda x: log.append('onfail') or x)
and_(whole, gt, **kw)([1200000.0])
assert log == ['onfail'], log          # no point is whole and above the bound within reach: success must not be claimed
del log[:]
random.seed(0)
and_(lambda x: impose_sum(3.5, x), lambda x: impose_spread(1.3, x), **kw)([-1.0, 0.4, -0.8, 1.9])
assert log == ['onexit'], log          # consistent members that agree to within rounding

# 4defe47
from mystic.symbolic import generate_conditions
assert generate_conditions("x0 < x1 or 2")[0][0]([3.0, 3.0]) > 0

# 28263cf (and 27d90e7, 41b2fdc, 03f6a65)
from mystic.math.distance import euclidean, manhattan, chebyshev, absolute_distance
assert euclidean(np.array([300., 0.], dtype=np.float16), np.array([0., 400.], dtype=np.float16), pair=True) == 500.0
L = np.longdouble
assert absolute_distance(np.array([1], dtype=L), np.array([1], dtype=L) + L(1e-18))[0][0] > 0
assert chebyshev([2**70, 1]) > 1e21 and list(absolute_distance([3 + 4j], [0], pair=True)) == [5.0]
assert list(absolute_distance(np.array([200, 10], dtype=np.uint8), np.array([10, 200], dtype=np.uint8), pair=True)) == [190., 190.]
print('all follow-up probes hold')
