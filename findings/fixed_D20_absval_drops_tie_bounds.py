"""D20 (fixed): simplify() first passes the whole system through absval(), which merged the lines with merge(inclusive=True),
the table of ALTERNATIVES: a pair 'A >= c', 'A <= c' was dropped (and 'A > c', 'A < c' became 'A != c').  So
simplify('x0 >= 2.0\nx1 <= 5.0\nx0 <= 2.0') returned only 'x1 <= 5.0', and the symbolic bounds constraint built from
min[i] == max[i] did not constrain coordinate i at all (boundsconstrain([0,None,2],[None,5,2])([-1,7,3]) -> [0,5,3]).
Found by C12.f after a seeding agent noticed the tie-bound behaviour."""
import mystic.symbolic as ms
from mystic.constraints import boundsconstrain

r = ms.simplify('x0 >= 2.0\nx1 <= 5.0\nx0 <= 2.0')
assert sorted(r.split('\n')) == ['x0 = 2.00000000000000', 'x1 <= 5.00000000000000'], r
assert boundsconstrain([0, None, 2], [None, 5, 2])([-1, 7, 3]) == [0.0, 5.0, 2.0]
r = ms.simplify('abs(x0) < 4\nx0 >= 1\nx0 <= 1', all=True)
assert all('x0 = 1' in c for c in r), r
assert ms.simplify('x0 > 2.0\nx1 <= 5.0\nx0 < 2.0') is None      # contradictory bounds: no result (was 'x0 != 2.0')
print('ok')
