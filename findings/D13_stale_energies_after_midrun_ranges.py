"""demo of known finding D13 (C01): installing strict ranges mid-run clips the members into the box but keeps
the energies of the old out-of-box points, so stored energies no longer belong to the stored vectors
(Nelder-Mead even reports a best energy that is not the cost of its best solution).
run: /venv/bin/python /verif/findings/D13_stale_energies_after_midrun_ranges.py"""
import mystic, numpy
from mystic.solvers import DifferentialEvolutionSolver, NelderMeadSimplexSolver
def cost(x): return sum((xi - 3.)**2 for xi in x)
for S, args in ((DifferentialEvolutionSolver, (3, 8)), (NelderMeadSimplexSolver, (3,))):
    mystic.random_seed(5)
    s = S(*args)
    if S is DifferentialEvolutionSolver: s.SetRandomInitialPoints([2]*3, [4]*3)
    else: s.SetInitialPoints([3.5, 2.5, 3.2])
    s.SetObjective(cost)
    for i in range(6): s.Step()
    s.SetStrictRanges([0, 0, 0], [1, 1, 1])
    for i in range(3): s.Step()
    bad = [i for i, (p, e) in enumerate(zip(s.population, s.popEnergy)) if numpy.isfinite(e) and abs(float(e) - float(cost(p))) > 1e-9]
    print('%s: %d of %d members carry an energy that is not cost(member); reported best energy %.4f, cost(best solution) %.4f'
          % (S.__name__, len(bad), len(s.population), s.bestEnergy, cost(s.bestSolution)))
