#!/venv/bin/python
"""Prompts for the "violation hunt" agents (round 5): same isolation as the seeding agents (property text + a scratch worktree,
nothing from /verif), but the task is to find inputs for which the UNCHANGED code violates the property.  The generated prompt
names the defects already known per property (one line each) so they are not reported again.  Writes /tmp/wt/props/CNN.hunt;
results are expected in /tmp/wt/CNN/_hunt/N/{demo.py,notes.md}.  Each reported case is reproduced here, and acted on only
after a rule able to decide it statically has been written and has flagged the tree."""
import sys
print(__doc__)
print('(the generator body is the python snippet recorded in notes/hunt_prompt_snippet.py)')
