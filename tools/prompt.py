import json, sys
pid = sys.argv[1]; nums = sys.argv[2:]  # e.g. 3 4 5
p = json.load(open('/tmp/wt/props/%s.json' % pid))
body = {k: p[k] for k in ('id', 'title', 'statement', 'quantifier', 'why_tests_cant', 'anchors')}
w = '/tmp/wt/%s' % pid
print(f"""You are helping to evaluate a verification effort for the Python package uqfoundation/mystic (a pure-Python constrained nonlinear optimisation framework). Your job is to play the part of a developer who introduces a realistic, subtle regression.

Your private scratch git worktree of the repository is {w} (a detached checkout of the current commit). Work ONLY inside {w}. Do not read, list or touch /verif or /repo, and do not look at anything else under /tmp/wt except your own worktree and the script /tmp/wt/run_baseline.sh. mystic is installed in /venv in editable mode from another directory, so ALWAYS run python as `PYTHONPATH={w} /venv/bin/python ...` so that your worktree's copy is imported (check `mystic.__file__` once).

The semantic property you have to break (this is everything you are given about it):

{json.dumps(body, indent=1)}

Produce {len(nums)} DIFFERENT changes to mystic's source (under {w}/mystic, not the tests), numbered {', '.join(nums)}, each of which:
 1. breaks the property above (for some input / configuration / history the property quantifies over);
 2. still imports/compiles, and keeps the pinned test suite passing: run `/tmp/wt/run_baseline.sh {w}` with the change applied (takes about 5 minutes, runs serially; it must print "baseline tests passing: 213 / 213"). Do not run pytest with xdist; do not run two baseline runs at once in the same worktree;
 3. is realistic - the kind of edit a maintainer could plausibly make while refactoring, optimising, "simplifying" or fixing something else (no sabotage that looks deliberate, no dead code, no environment-variable switches, no changes to tests);
 4. needs something SPECIFIC to manifest - a particular multi-step sequence of API calls, a reconfiguration between iterations, an unusual but legal input (a zero, a tie, an inf, a negative index, an empty or length-1 case, a boundary value), a stop at a particular point, two cooperating sites that each look fine alone - NOT something ordinary use would expose at once;
 5. is small (typically 1-15 changed lines), and the {len(nums)} changes should hit DIFFERENT mechanisms / functions / files among those the property's anchors mention (spread them out; prefer places that look less obvious than the first thing that comes to mind).

For each change number N write, in {w}/_seed/N/ :
  - patch.diff : `git -C {w} diff -- mystic` with only that one change applied (it must apply cleanly with `git apply` on the clean checkout);
  - demo.py    : a small stand-alone program (no pytest needed) that exits 0 on the unchanged code and exits non-zero (assertion failure) with the change applied; it must be deterministic (seed any randomness), finish within a minute or two, and check the property itself (not an implementation detail); run it as `PYTHONPATH={w} /venv/bin/python {w}/_seed/N/demo.py`;
  - notes.md   : first paragraph: one or two sentences saying what the change is and what it needs in order to manifest; then why the existing tests do not see it.

Procedure per change: start from a clean tree (`git -C {w} checkout -- .`), make the edit, write the demo, confirm the demo fails with the edit and passes without it, run the baseline with the edit, save patch.diff, then `git -C {w} checkout -- .` before starting the next change. Leave the worktree clean (only the untracked _seed directory) when you finish. If a candidate change makes a baseline test fail, discard it and find another one. Finish by reporting, for each N, one line describing the change and the results you observed (demo clean exit, demo patched exit, baseline count).""")
