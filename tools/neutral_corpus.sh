#!/bin/bash
# usage: tools/neutral_corpus.sh [id...]  - run all twenty quick checks against every behaviour-preserving refactoring kept under /verif/neutral
# (each applied to a scratch copy of /repo/mystic); prints, per refactoring, the checks that did not answer OK
cd /verif
ids=${@:-$(ls neutral | grep '^C')}
mkdir -p /tmp/verif-ncorpus
for id in $ids; do
  tools/try_neutral.sh /verif/neutral/$id/patch.diff > /tmp/verif-ncorpus/$id.txt 2>&1
  echo "$id: $(tail -1 /tmp/verif-ncorpus/$id.txt) | $(grep -o ' C[0-9][0-9]\.[a-z] ' /tmp/verif-ncorpus/$id.txt | sort -u | tr -d '\n') $(grep -o 'ANALYSIS-ERROR property=C[0-9][0-9] C[0-9][0-9]\.[a-z]\|ANALYSIS-ERROR property=C[0-9][0-9]' /tmp/verif-ncorpus/$id.txt | sed 's/ANALYSIS-ERROR property=/AE:/' | sort -u | tr '\n' ' ')"
done
