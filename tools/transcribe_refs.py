#!/usr/bin/env python
"""Transcribe the current source of the named functions (docstrings and comments dropped) as reference
definitions for reference-summary rules.  Used ONCE per reference, by hand, after reading the function and
confirming that it implements the property's clause on the pinned tree; the output is committed and the
rules compare behavioural summaries against it on every run (they never regenerate it).

usage: transcribe_refs.py OUT.py 'docstring' anchor [anchor...]   (anchor = module:qualname)
"""
import ast
import sys

sys.path.insert(0, '/verif')
from sa.srcmodel import Model


def strip_doc(node):
    for n in ast.walk(node):
        if isinstance(n, (ast.FunctionDef, ast.ClassDef)) and n.body and isinstance(n.body[0], ast.Expr) and \
                isinstance(getattr(n.body[0], 'value', None), ast.Constant) and isinstance(n.body[0].value.value, str):
            n.body = n.body[1:] or [ast.Pass()]
    return node


def main():
    out, doc, anchors = sys.argv[1], sys.argv[2], sys.argv[3:]
    m = Model('/repo')
    refs = {}
    for a in anchors:
        f = m.func(a)
        node = strip_doc(ast.parse(ast.unparse(f.node)).body[0])
        node.decorator_list = []
        refs[a] = ast.unparse(node) + '\n'
    with open(out, 'w') as fh:
        fh.write('"""%s"""\nREFS = {\n' % doc)
        for a, src in refs.items():
            fh.write('    %r:\n        %r,\n' % (a, src))
        fh.write('}\n')


if __name__ == '__main__':
    main()
