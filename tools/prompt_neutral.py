import json, sys
pid = sys.argv[1]; nums = sys.argv[2:]
p = json.load(open('/tmp/wt/props/%s.json' % pid))
body = {k: p[k] for k in ('id', 'title', 'statement', 'anchors')}
w = '/tmp/wt/%s' % pid
print(f"""You are helping to evaluate a verification effort for the Python package uqfoundation/mystic (a pure-Python constrained nonlinear optimisation framework). Your job is to play the part of a maintainer who REFACTORS code WITHOUT changing its behaviour.

Your private scratch git worktree of the repository is {w} (a detached checkout of the current commit). Work ONLY inside {w}. Do not read, list or touch /verif or /repo, and do not look at anything else under /tmp/wt except your own worktree and the script /tmp/wt/run_baseline.sh. mystic is installed in /venv in editable mode from another directory, so ALWAYS run python as `PYTHONPATH={w} /venv/bin/python ...` so that your worktree's copy is imported (check `mystic.__file__` once). Ignore any existing `_seed` directory in the worktree.

The semantic property whose implementation you will refactor (the refactorings must KEEP this property true and keep behaviour identical):

{json.dumps(body, indent=1)}

Produce {len(nums)} DIFFERENT behaviour-preserving refactorings of mystic's source (under {w}/mystic, not the tests), numbered {', '.join(nums)}. Each one:
 1. edits the body of one or more of the functions/methods that the property's anchors point to (the 'mechanism' entries) - spread the {len(nums)} refactorings over DIFFERENT functions/files;
 2. is the kind of clean-up a maintainer really does: rename local variables; introduce or inline a temporary; reorder statements that do not depend on each other; turn a small loop into a comprehension or the reverse; flatten nested ifs / use an early return / merge two ifs with `and`; swap the operands of a comparison (a < b  <->  b > a) or of a commutative arithmetic operation; replace a lambda by a nested def or the reverse; extract a few lines into a private helper function (or inline a trivial helper); use enumerate/zip instead of indexing; replace `x = x + y` by `x += y` only where x is not aliased; tidy comments and docstrings. Combine two or three of these per refactoring (5-40 changed lines). Do not rename public functions, methods, parameters or solver attributes (self._xxx) - only locals;
 3. keeps behaviour EXACTLY the same for all inputs: same return values, same exceptions, same number and order of calls to user-supplied functions (cost, constraints, penalty, termination, callback, map), same consumption of random numbers, same contents of monitors and counters, same strings written to files. If you are not sure an edit is behaviour-preserving for every input (think about NaN/inf, ties, empty sequences, numpy arrays vs lists, in-place mutation and aliasing), do not make it;
 4. keeps the pinned test suite passing: run `/tmp/wt/run_baseline.sh {w}` with the refactoring applied (about 5-10 minutes, serial; it must print "baseline tests passing: 213 / 213"). Do not use xdist; never run two baseline runs at once in the same worktree.

For each refactoring number N write, in {w}/_neutral/N/ :
  - patch.diff : `git -C {w} diff -- mystic` with only that refactoring applied (must apply cleanly with `git apply` on the clean checkout);
  - demo.py    : a small deterministic stand-alone program that exercises the refactored functions on a range of inputs (including edge cases) and asserts the property-relevant results against values you RECORDED FROM THE UNCHANGED CODE (hard-code the expected outputs in the demo, or recompute them independently); it must exit 0 both on the unchanged code and with the refactoring applied; run it as `PYTHONPATH={w} /venv/bin/python {w}/_neutral/N/demo.py`;
  - notes.md   : first paragraph: which functions were refactored and which kinds of edit were used; then a short argument why behaviour is unchanged.

Procedure per refactoring: start from a clean tree (`git -C {w} checkout -- .`), write the demo against the unchanged code first and record expected values, make the edit, confirm the demo still passes, run the baseline, save patch.diff, then `git -C {w} checkout -- .` before the next one. Leave the worktree clean (only untracked _seed/_neutral directories) when you finish. Finish by reporting, for each N, one line describing the refactoring and the results you observed (demo exit on clean tree, demo exit with the patch, baseline count).""")
