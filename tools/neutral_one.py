#!/venv/bin/python
"""usage: tools/neutral_one.py PROP TRANSFORM relfile  - apply one generated neutral transformation (sa/sweep.py) to a
scratch copy and print the check's diagnostics (to debug a false alarm of the checker)"""
import os, shutil, subprocess, sys, tempfile
sys.path.insert(0, '/verif')
from sa import sweep
prop, name, rel = sys.argv[1:4]
repo = os.environ.get('VERIF_REPO', '/repo')
tmp = tempfile.mkdtemp(prefix='verif-n1-')
try:
    shutil.copytree(os.path.join(repo, 'mystic'), os.path.join(tmp, 'mystic'), ignore=shutil.ignore_patterns('tests', '__pycache__', '*.pyc'))
    src = open(os.path.join(repo, rel)).read()
    open(os.path.join(tmp, rel), 'w').write(sweep._transform(src, name))
    r = subprocess.run(['/verif/check', prop, '--repo', tmp, '--no-evidence', '-q'] + sys.argv[4:], capture_output=True, text=True)
    for l in r.stdout.splitlines():
        if not l.startswith(('KNOWN-FINDING', 'VIOLATION')):
            print(l[:700])
    print('exit', r.returncode)
    if os.environ.get('KEEP'):
        print('kept', tmp); tmp = None
finally:
    if tmp:
        shutil.rmtree(tmp, ignore_errors=True)
