#!/venv/bin/python
"""regenerate /verif/neutral/PASSING.json from the per-refactoring outputs of tools/neutral_corpus.sh (/tmp/verif-ncorpus/<id>.txt)"""
import glob, json, os, re
P = ['C%02d' % i for i in range(1, 21)]
old = json.load(open('/verif/neutral/PASSING.json'))
passing, not_silent = {}, {}
for f in sorted(glob.glob('/tmp/verif-ncorpus/C*.txt')):
    nid = os.path.basename(f)[:-4]
    txt = open(f).read()
    if 'PATCH-DOES-NOT-APPLY' in txt or 'non-zero:' not in txt:
        print('skipped', nid); continue
    bad = sorted(set(re.findall(r'^== (C\d\d) exit \d+', txt, re.M)))
    passing[nid] = [p for p in P if p not in bad]
    if bad:
        not_silent[nid] = bad
for nid in old['passing']:
    mp = '/verif/neutral/%s/meta.json' % nid
    if os.path.exists(mp) and json.load(open(mp)).get('obsolete'):
        continue      # every line it touched was rewritten by a repair: not replayed any more
    passing.setdefault(nid, old['passing'][nid])
json.dump({'_comment': old['_comment'], 'passing': passing, 'not_silent': not_silent}, open('/verif/neutral/PASSING.json', 'w'), indent=1)
print(len(passing), 'refactorings;', sum(1 for v in passing.values() if len(v) == 20), 'fully silent;', sum(len(v) for v in passing.values()), 'silent pairs')
