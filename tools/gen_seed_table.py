#!/usr/bin/env python
"""Regenerate the seed table of DESIGN.md section 10 from notes/seed_history.md (between the table header and the
line starting '(Seeds for')."""
import re
V = '/verif/'
rows = [l for l in open(V + 'notes/seed_history.md').read().splitlines() if re.match(r'\| C\d\d-\d', l)]
s = open(V + 'DESIGN.md').read()
head = '| seed | change | first run | after strengthening |\n|---|---|---|---|\n'
a = s.index(head) + len(head)
b = s.index('\n(Seeds for', a)
s = s[:a] + '\n'.join(rows) + '\n' + s[b:]
open(V + 'DESIGN.md', 'w').write(s)
print(len(rows), 'rows')
