#!/bin/bash
# usage: tools/confirm_neutral.sh <prop> <n>  - confirm a behaviour-preserving refactoring produced by a sub-agent: its demo passes on the
# clean tree and with the patch, and the pinned suite (serial) stays at 213/213 with the patch; all in a private worktree of /repo HEAD
p=$1; n=$2; src=/tmp/wt/$p/_neutral/$n; w=/tmp/wt/nconf-$p-$n; out=/tmp/wt/logs/nconfirm-$p-$n.txt; : > $out
[ -f $src/patch.diff ] || { echo "missing=1" >> $out; exit 0; }
rm -rf $w; git -C /repo worktree add -q --detach $w HEAD || exit 3
cd $w
sed "s#/tmp/wt/$p#$w#g" $src/demo.py > $w/_demo.py
PYTHONPATH=$w PYTHONHASHSEED=0 timeout 900 /venv/bin/python $w/_demo.py > /dev/null 2>&1; echo "demo_clean_exit=$?" >> $out
git apply $src/patch.diff || echo "apply_failed=1" >> $out
PYTHONPATH=$w PYTHONHASHSEED=0 timeout 900 /venv/bin/python $w/_demo.py > /dev/null 2>&1; echo "demo_patched_exit=$?" >> $out
rm -f $w/_demo.py
/verif/tools/run_baseline.sh $w >> $out 2>&1
cd /; git -C /repo worktree remove --force $w
