"""what MANIFEST.json claims; edited by hand, turned into MANIFEST.json by tools/gen_manifest.py"""
TECH = 'static analysis (python ast): '
CLAIMS = {
 'C05': dict(
   technique=TECH + 'path enumeration of Step/Terminated/_Solve with forward substitution, order abstraction of the limit tests, decision-table extraction of warnflag chains, who-may-write on the exit flag',
   text='Decides, for every path of the code, the structural clauses of the stopping discipline: Step reaches _Step only with an empty log or a falsy Terminated(); Terminated resolves the limits first, consults termination + both limits (as count >= limit over all orderings) + the exit flag, and its message names the branch that fired; limit bookkeeping pairs generations/evaluations correctly for new=True and the "*" sentinel; wrappers derive warnflag from the same tests; only __init__/Solve/the signal handler write the exit flag. These are necessary conditions; a change that breaks one breaks the property for some history.',
   note='Not decided: that Solve returns for every cost function, the size of the evaluation overshoot within one iteration, behaviour of user termination callables. Trusted: python ast, rule tables in sa/rules/c05.py.'),
 'C04': dict(
   technique=TECH + 'path enumeration of wrap_function (count-per-path of increment / raw call / monitor call), who-may-write on the counter cell, abstract simulation of the step-monitor protocol extracted from _Step/Finalize (generation ticks, callbacks), argument-role check of the record',
   text='Decides the structural clauses of counter/monitor faithfulness on every path: the evaluation counter and evaluation monitor are bound around the raw cost (exactly one increment, one raw call, one monitor call with the unscaled value); only the wrapper and a frozen table of writers touch the counter and every rebinding carries the old count; evaluations/generations getters read the cell / the log; in every reachable bookkeeping state (log length x decoupled energy history) _Step adds exactly one generation and Finalize none, with one guarded callback(bestSolution) after the record; the record is the best pair; monitor replacement prepends the old contents.',
   note='Not decided: number of cost calls per iteration, equality of monitor contents with real calls under non-default maps, monotonicity of the best energy under non-idempotent constraints (its structural half, strict-< replacement, is decided under C01/C08). DE2 recomputing its counter is a recorded known finding (D3a/D3b).'),
}
NOT_APPLICABLE = {}
for _i in range(1, 21):
    _p = 'C%02d' % _i
    if _p not in CLAIMS:
        NOT_APPLICABLE[_p] = 'check under construction in this session (see DESIGN.md section 5); not claimed until its rules pass on the clean tree'
