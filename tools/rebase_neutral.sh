#!/bin/bash
# usage: tools/rebase_neutral.sh <id>   - a later fix: commit rewrote lines a kept refactoring touches: re-apply the refactoring to /repo HEAD
# dropping the hunks that no longer apply, and confirm that what remains is still behaviour-preserving (its recorded-behaviour demo passes
# before and after, pinned suite 213/213).  Writes /tmp/wt/logs/nrebase-<id>.txt and, on success, /tmp/wt/nrebase/<id>.diff
id=$1; src=/verif/neutral/$id; w=/tmp/wt/nreb-$id; out=/tmp/wt/logs/nrebase-$id.txt; : > $out; mkdir -p /tmp/wt/nrebase
p=${id%-*}
rm -rf $w; git -C /repo worktree add -q --detach $w HEAD || exit 3
cd $w
sed "s#/tmp/wt/$p#$w#g" $src/demo.py > $w/_demo.py
PYTHONPATH=$w PYTHONHASHSEED=0 timeout 900 /venv/bin/python $w/_demo.py > /dev/null 2>&1; echo "demo_clean_exit=$?" >> $out
patch -p1 -f --no-backup-if-mismatch -i $src/patch.diff > $w/_patch.log 2>&1
echo "hunks_failed=$(grep -c 'FAILED' $w/_patch.log)" >> $out
find . -name '*.rej' -delete; find . -name '*.orig' -delete
git diff -- mystic > /tmp/wt/nrebase/$id.diff
echo "lines_changed=$(grep -c '^[+-][^+-]' /tmp/wt/nrebase/$id.diff)" >> $out
PYTHONPATH=$w /venv/bin/python -c "import mystic, mystic.solvers" >> $out 2>&1; echo "import_exit=$?" >> $out
PYTHONPATH=$w PYTHONHASHSEED=0 timeout 900 /venv/bin/python $w/_demo.py > /dev/null 2>&1; echo "demo_patched_exit=$?" >> $out
rm -f $w/_demo.py $w/_patch.log
/verif/tools/run_baseline.sh $w >> $out 2>&1
cd /; git -C /repo worktree remove --force $w
