#!/bin/bash
# usage: tools/confirm_all.sh <prop> <n> [<n>...]  - confirm several seeds of one property (demos serialised by the lock, baselines in parallel)
p=$1; shift
for n in "$@"; do /verif/tools/confirm_seed.sh $p $n > /dev/null 2>&1 & done
wait
for n in "$@"; do echo "== $p-$n: $(tr '\n' ' ' < /tmp/wt/logs/confirm-$p-$n.txt)"; done > /tmp/wt/logs/$p.done
