#!/venv/bin/python
"""usage: tools/collect_seed.py <prop> <n> [extra props to run]
Keeps a sub-agent's seeded change under /verif/seeded/<prop>-<n>/ once tools/confirm_seed.sh has confirmed it
(demo passes clean / fails patched / pinned suite 213/213 with the patch), and records which checks catch it."""
import json, os, re, shutil, subprocess, sys
prop, n = sys.argv[1], sys.argv[2]
props = [prop] + sys.argv[3:]
src = '/tmp/wt/%s/_seed/%s' % (prop, n)
log = open('/tmp/wt/logs/confirm-%s-%s.txt' % (prop, n)).read()
kv = dict(re.findall(r'(\w+)=(\d+)', log))
m = re.search(r'baseline tests passing: (\d+) / (\d+)', log)
ok = kv.get('demo_clean_exit') == '0' and kv.get('demo_patched_exit') not in (None, '0') and kv.get('import_exit') == '0' and m and m.group(1) == m.group(2) == '213'
print('confirmation:', kv, m.group(0) if m else None, 'OK' if ok else 'REJECTED')
if not ok:
    sys.exit(1)
dst = '/verif/seeded/%s-%s' % (prop, n)
os.makedirs(dst, exist_ok=True)
for fn in ('patch.diff', 'demo.py', 'notes.md'):
    shutil.copy(os.path.join(src, fn), os.path.join(dst, fn))
rebased = os.path.join(src, 'patch.rebased.diff')
if os.path.exists(rebased):
    # a later fix: commit in /repo touched the same lines: keep the agent's original and use the re-based patch
    shutil.copy(os.path.join(src, 'patch.diff'), os.path.join(dst, 'patch.orig.diff'))
    shutil.copy(rebased, os.path.join(dst, 'patch.diff'))
# run the checks against /repo with the patch applied, then undo
subprocess.check_call(['git', '-C', '/repo', 'apply', os.path.join(dst, 'patch.diff')])
caught = {}
try:
    for p in props:
        r = subprocess.run(['/verif/check', p, '--no-evidence', '-q'], capture_output=True, text=True)
        rules = sorted(set(re.findall(r': (%s\.\w+) ' % p, r.stdout)))
        caught[p] = {'exit': r.returncode, 'rules': rules}
finally:
    subprocess.check_call(['git', '-C', '/repo', 'checkout', '--', '.'])
notes = open(os.path.join(dst, 'notes.md')).read()
meta = {'id': '%s-%s' % (prop, n), 'property': prop, 'source': 'independent sub-agent given only the property text and a scratch worktree',
        'needs_to_manifest': notes.strip().split('\n\n')[0][:600],
        'confirmed': {'demo_clean_exit': 0, 'demo_patched_exit': int(kv['demo_patched_exit']), 'pinned_suite': '213/213 (serial, PYTHONPATH override) with the patch applied',
                      'commands': ['tools/confirm_seed.sh %s %s' % (prop, n)]},
        'checks': caught,
        'rebased': os.path.exists(rebased),
        'detected': any(v['exit'] == 1 for v in caught.values())}
json.dump(meta, open(os.path.join(dst, 'meta.json'), 'w'), indent=1)
print(json.dumps(meta['checks']), 'detected' if meta['detected'] else 'MISSED')
