import json, subprocess
used = json.load(open('/tmp/wt/used_sites.json'))
for i in range(1, 21):
    pid = 'C%02d' % i
    base = subprocess.run(['/venv/bin/python', '/verif/tools/prompt.py', pid, '12', '13', '14'], capture_output=True, text=True).stdout
    extra = ("\n\nAdditional guidance for this round: never use `git stash` (it is shared between worktrees); use `git checkout -- .`, `git apply` and `git apply -R`. "
             "The baseline run leaves an untracked `ave.db`; delete it. "
             "Earlier rounds have already produced changes inside the following functions for this property, so do NOT put your changes there - pick OTHER functions "
             "(helpers these call, sibling classes or sibling branches, less travelled entry points, the wrappers / convenience interfaces, code the anchors mention only in passing): "
             + '; '.join(used.get(pid, [])) + ". "
             "Make the three changes of DIFFERENT KINDS, and prefer kinds like these: a guard or conversion that handles one container type (list) and silently mishandles another (tuple, ndarray, 0-d array, iterator/generator, dict views); "
             "NaN / inf / -0.0 slipping through a comparison written one way round; a negative, out-of-range or repeated index; an integer dtype where a float is stored; "
             "an exception handler widened or narrowed by one class; a default that is decided by truthiness instead of `is None`; state that leaks from one call or one object to the next (class attribute, module global, closure cell, shared default); "
             "a name or text substitution that also matches inside a longer name; a resource (file, module, cached finder) looked up by name instead of by the path given; a second code path (restored solver, second Solve, step mode vs run-to-completion, ensemble member vs plain solver) that misses a step the main path performs; "
             "two settings that interact (each honoured alone). "
             "As before: the effect should show only for specific inputs or after a specific SEQUENCE of calls, and the pinned suite must stay at 213 / 213.\n"
             "\nIf, while exploring, you notice behaviour of the UNCHANGED code that already violates the property, do not build a change on it; list it at the end of your report with the exact input and the observed output.\n")
    open('/tmp/wt/props/%s.prompt6' % pid, 'w').write(base.rstrip() + extra)
print('ok')
