#!/venv/bin/python
"""print the index of implemented rules (markdown) from the registry - pasted into DESIGN.md section 5"""
import sys, os, importlib
sys.path.insert(0, os.path.dirname(os.path.dirname(os.path.abspath(__file__))))
from sa import core
from sa.rules import load
import json
props = {json.loads(l)['id']: json.loads(l) for l in open('/verif/properties.jsonl')}
for i in range(1, 21):
    p = 'C%02d' % i
    load(p)
    mod = importlib.import_module('sa.rules.c%02d' % i)
    print('### %s - %s\n' % (p, props[p]['title']))
    doc = (mod.__doc__ or '').strip().split('\n\n', 1)
    body = doc[1] if len(doc) > 1 else doc[0]
    print(' '.join(body.split()) + '\n')
    for rid, fn, mi, d, tier in core.RULES[p]:
        print('* `%s` (>= %d instances) %s' % (rid, mi, ' '.join(d.split())))
    print()
