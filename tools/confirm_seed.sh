#!/bin/bash
# usage: tools/confirm_seed.sh <prop> <n>
# confirms a sub-agent's seeded change in scratch worktrees (never in /repo):
#   demo passes on the clean tree and fails with the patch (run in the agent's own worktree, under a lock,
#   because some demos assert where mystic was imported from); pinned suite (serial) still 213/213 with the
#   patch, run in a private worktree so several confirmations can proceed in parallel.
p=$1; n=$2; o=/tmp/wt/$p; src=$o/_seed/$n; w=/tmp/wt/confirm-$p-$n
out=/tmp/wt/logs/confirm-$p-$n.txt; mkdir -p /tmp/wt/logs; : > $out
(
 flock 9
 cd $o && git checkout -q -- . 
 PYTHONPATH=$o timeout 600 /venv/bin/python $src/demo.py > /tmp/wt/logs/confirm-$p-$n.clean.out 2>&1; echo "demo_clean_exit=$?" >> $out
 git apply $src/patch.diff || echo "apply_failed=1" >> $out
 PYTHONPATH=$o /venv/bin/python -c "import mystic, mystic.solvers" >> $out 2>&1; echo "import_exit=$?" >> $out
 PYTHONPATH=$o timeout 600 /venv/bin/python $src/demo.py > /tmp/wt/logs/confirm-$p-$n.patched.out 2>&1; echo "demo_patched_exit=$?" >> $out
 git checkout -q -- .
) 9> /tmp/wt/$p.lock
rm -rf $w; git -C /repo worktree add -q --detach $w HEAD || exit 3
cd $w && git apply $src/patch.diff
/verif/tools/run_baseline.sh $w >> $out 2>&1
cd /; git -C /repo worktree remove --force $w
cat $out
