#!/bin/bash
# usage: tools/confirm_seed.sh <prop> <n>
# confirms a sub-agent's seeded change in ITS OWN scratch worktree copy (never in /repo):
#   demo fails with the patch, passes without, pinned suite (serial) still 213/213 with the patch.
# A private copy of the worktree is made so several confirmations can run in parallel.
p=$1; n=$2; src=/tmp/wt/$p/_seed/$n; w=/tmp/wt/confirm-$p-$n
rm -rf $w; git -C /repo worktree add -q --detach $w HEAD || exit 3
out=/tmp/wt/logs/confirm-$p-$n.txt; mkdir -p /tmp/wt/logs; : > $out
cd $w
PYTHONPATH=$w timeout 300 /venv/bin/python $src/demo.py > /tmp/wt/logs/confirm-$p-$n.clean.out 2>&1; echo "demo_clean_exit=$?" >> $out
git apply $src/patch.diff || { echo "apply_failed=1" >> $out; }
PYTHONPATH=$w /venv/bin/python -c "import mystic, mystic.solvers" >> $out 2>&1; echo "import_exit=$?" >> $out
PYTHONPATH=$w timeout 300 /venv/bin/python $src/demo.py > /tmp/wt/logs/confirm-$p-$n.patched.out 2>&1; echo "demo_patched_exit=$?" >> $out
/tmp/wt/run_baseline.sh $w >> $out 2>&1
cd /; git -C /repo worktree remove --force $w
cat $out
