#!/bin/bash
# usage: tools/run_baseline.sh <tree>   - pinned suite, serially, on a scratch tree (PYTHONPATH override); prints
# "baseline tests passing: N / 213" where N counts BASELINE.json stable_pass tests that pass in this run
w=$1; mkdir -p /tmp/wt/logs; j=$(mktemp /tmp/wt/logs/junit.XXXXXX.xml)
cd "$w" && PYTHONPATH="$w" timeout 1500 /venv/bin/python -m pytest -ra -q -p no:cacheprovider --timeout=900 \
   --continue-on-collection-errors --junitxml="$j" > "$j.out" 2>&1
/venv/bin/python - "$j" <<'P'
import json, sys, xml.etree.ElementTree as ET
base = set(json.load(open('/root/.vp/BASELINE.json'))['stable_pass'])
ok = set()
for tc in ET.parse(sys.argv[1]).getroot().iter('testcase'):
    if not any(c.tag in ('failure', 'error', 'skipped') for c in tc):
        ok.add('%s::%s' % (tc.get('classname'), tc.get('name')))
missing = sorted(base - ok)
print('baseline tests passing: %d / %d' % (len(base & ok), len(base)))
for m in missing[:20]:
    print('  NOT PASSING:', m)
P
rm -f "$j" "$j.out"
