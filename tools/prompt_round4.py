#!/venv/bin/python
"""Round-4 prompts (seeds 9-11): the round-2/3 prompt plus the list of functions earlier seeds of the same property touched
(to be avoided) and a list of kinds of change not tried yet.  Writes /tmp/wt/props/CNN.prompt4 (needs /tmp/wt/props/CNN.json,
i.e. the property record, and /tmp/wt/used_sites.json produced by mapping every /verif/seeded/*/patch.diff hunk to its
enclosing function)."""
import json, subprocess
used = json.load(open('/tmp/wt/used_sites.json'))
for i in range(1, 21):
    pid = 'C%02d' % i
    base = subprocess.run(['/venv/bin/python', '/verif/tools/prompt.py', pid, '9', '10', '11'], capture_output=True, text=True).stdout
    extra = ("\n\nAdditional guidance for this round: ignore any existing `_seed/<n>` (n below 9) or `_neutral` directories in the worktree (do not read them). "
             "Never use `git stash` (it is shared between worktrees); use `git checkout -- .`, `git apply` and `git apply -R`. "
             "The baseline run leaves an untracked `ave.db`; delete it. "
             "Earlier rounds have already produced changes inside the following functions for this property, so do NOT put your changes there - pick OTHER functions "
             "(helpers these call, sibling classes or sibling branches, less travelled entry points, the wrappers / convenience interfaces, code the anchors mention only in passing): "
             + '; '.join(used.get(pid, [])) + ". "
             "Make the three changes of DIFFERENT KINDS. Kinds that worked in earlier rounds and may be reused only at a new site: aliasing, swapped statements, swapped arguments, off-by-one at a boundary, stale cache, early return skipping bookkeeping, changed exception handling, None/0/empty confusion, one sibling not updated. "
             "Kinds not tried yet that you should prefer: an INTERACTION between two features that each still work alone (e.g. a setting honoured unless a second, unrelated setting is also given); a unit / sign / scale slip that cancels for the default parameters; a loop bound or slice that is right for the common shape (square, equal lengths, one factor, n=2) and wrong otherwise; integer vs float or list vs ndarray vs tuple type sensitivity; an `is`/`==` or `and`/`or` precedence slip; a value captured at definition time instead of call time (or the reverse); a mutable default argument; dictionary / set iteration order relied upon; a condition tested on the wrong one of two similarly named variables. "
             "As before: the effect should show only for specific inputs or after a specific SEQUENCE of calls, and the pinned suite must stay at 213 / 213.\n"
             "\nIf, while exploring, you notice behaviour of the UNCHANGED code that already violates the property, do not build a change on it; list it at the end of your report with the exact input and the observed output.\n")
    open('/tmp/wt/props/%s.prompt4' % pid, 'w').write(base.rstrip() + extra)
