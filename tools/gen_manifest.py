#!/venv/bin/python
"""regenerate /verif/MANIFEST.json from the table below (run after adding a property module)"""
import json, os, sys
VERIF = os.path.dirname(os.path.dirname(os.path.abspath(__file__)))
sys.path.insert(0, VERIF)
from tools.manifest_table import CLAIMS, NOT_APPLICABLE

checks = []
for pid, c in sorted(CLAIMS.items()):
    checks.append({
        'property_id': pid,
        'quick_cmd': './check %s --tier quick' % pid,
        'thorough_cmd': './check %s --tier thorough' % pid,
        'evidence_file': '/verif/evidence/%s.json' % pid,
        'replay_cmd_template': './check %s --replay {path}' % pid,
        'engine': 'sa',
        'level_claimed': {'category': 'other', 'text': c['text'], 'design_ref': 'DESIGN.md section 5, ' + pid},
        'level_note': c['note'],
        'technique': c['technique'],
    })
m = {
    'version': 1,
    'setup_cmd': '/venv/bin/python -B -c "import ast, sys; sys.path.insert(0, \'/verif\'); import sa.core, sa.cli, sa.selftest; print(\'sa ok\')"',
    'hooks': {'guard': 'MYSTIC_VERIF', 'enable': 'no hooks: the checks read /repo source with ast and never import or run mystic',
              'baseline_off_cmd': 'cd /repo && /venv/bin/python -m pytest -ra -q -p no:cacheprovider --timeout=900 --continue-on-collection-errors',
              'source_commits': [], 'add_only': True},
    'engines': [{'name': 'sa', 'path': '/verif/sa', 'serves_properties': sorted(CLAIMS),
                 'kind_free_text': 'repository-specific static analysis over the python ast: resolved program model, '
                                   'structured path enumeration, value numbering with polynomial normal form, order '
                                   'abstraction, call graph / effects, decision-table extraction'}],
    'checks': checks,
    'notes': 'Static analysis only. Each claimed check decides the structural clauses listed in DESIGN.md section 5 '
             '(necessary conditions of the property), not the behaviour as a whole; level_note says which. '
             'Genuine defects found are repaired by fix: commits in /repo or listed in /verif/known_findings.json.',
    'not_applicable': [{'property_id': k, 'reason': v} for k, v in sorted(NOT_APPLICABLE.items())],
}
json.dump(m, open(os.path.join(VERIF, 'MANIFEST.json'), 'w'), indent=1)
