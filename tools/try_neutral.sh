#!/bin/bash
# usage: tools/try_neutral.sh <patch.diff> [props...]  - apply a behaviour-preserving refactoring to a scratch copy of /repo/mystic and run the
# quick checks against it (all twenty by default); any exit != 0 is a false alarm / undecided answer of the checker
patch=$1; shift
props=${@:-C01 C02 C03 C04 C05 C06 C07 C08 C09 C10 C11 C12 C13 C14 C15 C16 C17 C18 C19 C20}
tmp=$(mktemp -d /tmp/verif-neutral-XXXXXX)
rsync -a --exclude tests --exclude __pycache__ /repo/mystic $tmp/
if ! patch -p1 -s -f --no-backup-if-mismatch -d $tmp -i "$patch" > /dev/null; then echo "PATCH-DOES-NOT-APPLY $patch"; rm -rf $tmp; exit 3; fi
echo $props | tr ' ' '\n' | xargs -P 10 -I{} sh -c "/verif/check {} --repo $tmp --no-evidence -q > $tmp/{}.out 2>&1; echo {} \$? >> $tmp/codes"
sort $tmp/codes | awk '$2!=0' | while read p c; do echo "== $p exit $c"; grep -v "^KNOWN-FINDING\|^VIOLATION" $tmp/$p.out | cut -c1-330 | head -6; done
n=$(awk '$2!=0' $tmp/codes | wc -l); echo "non-zero: $n of $(wc -l < $tmp/codes)"
rm -rf $tmp
