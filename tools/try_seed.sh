#!/bin/bash
# usage: tools/try_seed.sh <patch.diff> <prop> [<prop> ...]   - apply a seeded change to /repo, run the quick checks, undo it
patch=$1; shift
git -C /repo apply "$patch" || { echo "patch does not apply"; exit 3; }
for p in "$@"; do
  /verif/check $p --no-evidence -q 2>&1 | grep -v "^KNOWN-FINDING" | cut -c1-330 | head -12
  echo "   -> exit ${PIPESTATUS[0]}"
done
git -C /repo checkout -- . 
git -C /repo status --short | grep -v "^??" 
